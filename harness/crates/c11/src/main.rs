//! C11 harness: match exhaustiveness / reachability, answered by the real dora-frontend.
//!   h_c11 gen <n> [sys]   write a request file to stdout (seeded by VERIF_SEED)
//!   h_c11 run [file]      answer requests (one per line)
//!   h_c11 src             read ONE request from stdin, print the rendered Dora source
//!   h_c11 prog <file>     print ONE Dora program that evaluates every finite request of the file
//!   h_c11 genlit <n>     literal-scrutinee requests (lm ...) for the run-time leg (seeded by VERIF_SEED)
//! request:  (m (D*) T (A*))   -- see the grammar in DESIGN / the task description
//!           (lm L (A*) (V*))  -- L = Int64|Int32|UInt8|Char|Str; arms over `_`, (v x), (i N [d|p|x|b|u]), (k N) (a
//!                                `const` of the scrutinee type), (c N), (s w), (| ..); V* = the selector values the
//!                                compiled match is run on (integers / code points / words, `-` = empty string)
//! response: exhaustive useless[..] | missing[..] useless[..] | !panic file:line | !error .. | !badreq
use hutil::Rng;
use std::cell::RefCell;
use std::collections::{HashMap, HashSet};
use std::io::{BufRead, Read, Write};

// ───────────────────────────── model of a request ─────────────────────────────

#[derive(Clone, Debug, PartialEq)]
enum Ty {
    Bool,
    Int,
    Char,
    Str,
    Named(String),
}

#[derive(Clone, Debug)]
enum Fields {
    Pos(Vec<Ty>),
    Named(Vec<(String, Ty)>),
}

impl Fields {
    fn tys(&self) -> Vec<Ty> {
        match self {
            Fields::Pos(t) => t.clone(),
            Fields::Named(f) => f.iter().map(|x| x.1.clone()).collect(),
        }
    }
    fn len(&self) -> usize {
        match self {
            Fields::Pos(t) => t.len(),
            Fields::Named(f) => f.len(),
        }
    }
}

#[derive(Clone, Debug)]
enum Decl {
    Enum(String, Vec<(String, Fields)>),
    Struct(String, Fields),
    Class(String, Fields),
    Tuple(String, Vec<Ty>),
}

impl Decl {
    fn name(&self) -> &str {
        match self {
            Decl::Enum(n, _) | Decl::Struct(n, _) | Decl::Class(n, _) | Decl::Tuple(n, _) => n,
        }
    }
}

#[derive(Clone, Debug)]
enum Pat {
    Wild,
    Var(String),
    Bool(bool),
    Int(i64),
    /// integer literal with a spelling: d = decimal with type suffix, p = decimal without suffix, x = hex,
    /// b = binary (both two's complement at the type's width for negative values), u = decimal with `_` separators
    IntS(i64, char),
    /// identifier resolved to a `const` of the scrutinee's (integer) type with this value
    Const(i64),
    Char(u32),
    Str(String),
    Alt(Vec<Pat>),
    Tuple(Vec<Sub>),
    Ctor(String, Vec<Sub>),
    Variant(String, String, Vec<Sub>),
}

#[derive(Clone, Debug)]
enum Sub {
    P(Pat),
    Rest,
    Named(String, Pat),
}

#[derive(Clone, Debug)]
struct Req {
    decls: Vec<Decl>,
    ty: Ty,
    arms: Vec<(bool, Pat)>, // (guarded, pattern)
    lit: Option<LitReq>,    // Some = an `lm` request
}

#[derive(Clone, Debug, PartialEq)]
enum LVal {
    I(i64),
    S(String),
}

/// the extra parts of an `lm` request: the concrete scrutinee type and the selector values
#[derive(Clone, Debug)]
struct LitReq {
    lty: &'static str, // Int64 | Int32 | UInt8 | Char | Str
    values: Vec<LVal>,
}

fn lit_range(lty: &str) -> (i64, i64) {
    match lty {
        "Int64" => (i64::MIN, i64::MAX),
        "Int32" => (i32::MIN as i64, i32::MAX as i64),
        "UInt8" => (0, 255),
        "Char" => (0, 0x10FFFF),
        _ => (0, 0),
    }
}

fn find_decl<'a>(decls: &'a [Decl], name: &str) -> Option<&'a Decl> {
    decls.iter().find(|d| d.name() == name)
}

// ───────────────────────────── S-expression parser ─────────────────────────────

enum Sx {
    A(String),
    L(Vec<Sx>),
}

fn parse_sx(s: &str) -> Option<Sx> {
    let mut toks: Vec<String> = Vec::new();
    let mut cur = String::new();
    for ch in s.chars() {
        if ch == '(' || ch == ')' || ch.is_whitespace() {
            if !cur.is_empty() {
                toks.push(std::mem::take(&mut cur));
            }
            if !ch.is_whitespace() {
                toks.push(ch.to_string());
            }
        } else {
            cur.push(ch);
        }
    }
    if !cur.is_empty() {
        toks.push(cur);
    }
    fn go(t: &[String], i: &mut usize) -> Option<Sx> {
        let tok = t.get(*i)?;
        *i += 1;
        if tok == "(" {
            let mut v = Vec::new();
            loop {
                if t.get(*i)? == ")" {
                    *i += 1;
                    return Some(Sx::L(v));
                }
                v.push(go(t, i)?);
            }
        } else if tok == ")" {
            None
        } else {
            Some(Sx::A(tok.clone()))
        }
    }
    let mut i = 0;
    let r = go(&toks, &mut i)?;
    if i == toks.len() { Some(r) } else { None }
}

fn atom(x: &Sx) -> Option<&str> {
    match x {
        Sx::A(s) => Some(s),
        Sx::L(_) => None,
    }
}

fn list(x: &Sx) -> Option<&[Sx]> {
    match x {
        Sx::L(v) => Some(v),
        Sx::A(_) => None,
    }
}

fn is_ident(s: &str) -> bool {
    let mut c = s.chars();
    matches!(c.next(), Some(f) if f.is_ascii_alphabetic()) && c.all(|x| x.is_ascii_alphanumeric() || x == '_')
}

fn p_ty(x: &Sx) -> Option<Ty> {
    Some(match atom(x)? {
        "Bool" => Ty::Bool,
        "Int" => Ty::Int,
        "Char" => Ty::Char,
        "Str" => Ty::Str,
        n if is_ident(n) => Ty::Named(n.to_string()),
        _ => return None,
    })
}

fn p_fields(xs: &[Sx]) -> Option<Fields> {
    match atom(xs.first()?)? {
        "pos" => Some(Fields::Pos(xs[1..].iter().map(p_ty).collect::<Option<Vec<_>>>()?)),
        "named" => {
            let mut v = Vec::new();
            for f in &xs[1..] {
                let l = list(f)?;
                if l.len() != 2 || !is_ident(atom(&l[0])?) {
                    return None;
                }
                v.push((atom(&l[0])?.to_string(), p_ty(&l[1])?));
            }
            Some(Fields::Named(v))
        }
        _ => None,
    }
}

fn p_decl(x: &Sx) -> Option<Decl> {
    let l = list(x)?;
    if l.len() < 2 {
        return None;
    }
    let name = atom(&l[1])?.to_string();
    if !is_ident(&name) {
        return None;
    }
    match atom(&l[0])? {
        "enum" => {
            let mut vs = Vec::new();
            for v in &l[2..] {
                let vl = list(v)?;
                let vn = atom(vl.first()?)?;
                if !is_ident(vn) {
                    return None;
                }
                vs.push((vn.to_string(), p_fields(&vl[1..])?));
            }
            Some(Decl::Enum(name, vs))
        }
        "struct" => Some(Decl::Struct(name, p_fields(&l[2..])?)),
        "class" => Some(Decl::Class(name, p_fields(&l[2..])?)),
        "tuple" => Some(Decl::Tuple(name, l[2..].iter().map(p_ty).collect::<Option<Vec<_>>>()?)),
        _ => None,
    }
}

fn p_pat(x: &Sx) -> Option<Pat> {
    match x {
        Sx::A(a) => match a.as_str() {
            "_" => Some(Pat::Wild),
            "true" => Some(Pat::Bool(true)),
            "false" => Some(Pat::Bool(false)),
            _ => None,
        },
        Sx::L(l) => {
            let head = atom(l.first()?)?;
            match head {
                "v" if l.len() == 2 && is_ident(atom(&l[1])?) => Some(Pat::Var(atom(&l[1])?.to_string())),
                "i" if l.len() == 2 => Some(Pat::Int(atom(&l[1])?.parse().ok()?)),
                "i" if l.len() == 3 => {
                    let sp = atom(&l[2])?;
                    if !["d", "p", "x", "b", "u"].contains(&sp) {
                        return None;
                    }
                    Some(Pat::IntS(atom(&l[1])?.parse().ok()?, sp.chars().next()?))
                }
                "k" if l.len() == 2 && atom(&l[1])?.parse::<i64>().is_ok() => {
                    Some(Pat::Const(atom(&l[1])?.parse().ok()?))
                }
                "c" if l.len() == 2 => {
                    let c: u32 = atom(&l[1])?.parse().ok()?;
                    char::from_u32(c)?;
                    Some(Pat::Char(c))
                }
                "s" if l.len() == 1 => Some(Pat::Str(String::new())),
                "s" if l.len() == 2 => {
                    let w = atom(&l[1])?;
                    if w.chars().all(|c| c.is_ascii_lowercase() || c.is_ascii_digit()) {
                        Some(Pat::Str(w.to_string()))
                    } else {
                        None
                    }
                }
                "|" if l.len() >= 3 => Some(Pat::Alt(l[1..].iter().map(p_pat).collect::<Option<Vec<_>>>()?)),
                "t" => Some(Pat::Tuple(p_subs(&l[1..])?)),
                "k" if l.len() >= 2 => Some(Pat::Ctor(atom(&l[1])?.to_string(), p_subs(&l[2..])?)),
                "e" if l.len() >= 3 => {
                    Some(Pat::Variant(atom(&l[1])?.to_string(), atom(&l[2])?.to_string(), p_subs(&l[3..])?))
                }
                _ => None,
            }
        }
    }
}

fn p_subs(xs: &[Sx]) -> Option<Vec<Sub>> {
    xs.iter()
        .map(|x| {
            if let Sx::A(a) = x {
                if a == ".." {
                    return Some(Sub::Rest);
                }
            }
            if let Sx::L(l) = x {
                if l.len() == 3 && atom(&l[0]) == Some("=") {
                    return Some(Sub::Named(atom(&l[1])?.to_string(), p_pat(&l[2])?));
                }
            }
            p_pat(x).map(Sub::P)
        })
        .collect()
}

fn p_req(line: &str) -> Option<Req> {
    let sx = parse_sx(line)?;
    let l = list(&sx)?;
    if l.len() == 4 && atom(&l[0])? == "lm" {
        return p_lit_req(l);
    }
    if l.len() != 4 || atom(&l[0])? != "m" {
        return None;
    }
    let decls = list(&l[1])?.iter().map(p_decl).collect::<Option<Vec<_>>>()?;
    let ty = p_ty(&l[2])?;
    let mut arms = Vec::new();
    for a in list(&l[3])? {
        let al = list(a)?;
        if al.len() != 2 {
            return None;
        }
        let g = match atom(&al[0])? {
            "n" => false,
            "g" => true,
            _ => return None,
        };
        arms.push((g, p_pat(&al[1])?));
    }
    // every type name must be declared, and declared once
    let mut seen: HashSet<&str> = HashSet::new();
    let known = |t: &Ty, seen: &HashSet<&str>| match t {
        Ty::Named(n) => seen.contains(n.as_str()),
        _ => true,
    };
    for d in &decls {
        let tys: Vec<Ty> = match d {
            Decl::Enum(_, vs) => vs.iter().flat_map(|v| v.1.tys()).collect(),
            Decl::Struct(_, f) | Decl::Class(_, f) => f.tys(),
            Decl::Tuple(_, t) => t.clone(),
        };
        if !tys.iter().all(|t| known(t, &seen)) || !seen.insert(d.name()) {
            return None;
        }
    }
    if !known(&ty, &seen) {
        return None;
    }
    Some(Req { decls, ty, arms, lit: None })
}

fn p_arms(x: &Sx) -> Option<Vec<(bool, Pat)>> {
    let mut arms = Vec::new();
    for a in list(x)? {
        let al = list(a)?;
        if al.len() != 2 {
            return None;
        }
        let g = match atom(&al[0])? {
            "n" => false,
            "g" => true,
            _ => return None,
        };
        arms.push((g, p_pat(&al[1])?));
    }
    Some(arms)
}

/// is the (flat) pattern well-formed for a literal scrutinee of type `lty`?
fn lit_pat_ok(p: &Pat, lty: &str, top: bool) -> bool {
    let (lo, hi) = lit_range(lty);
    let int = matches!(lty, "Int64" | "Int32" | "UInt8");
    match p {
        Pat::Wild => true,
        Pat::Var(_) => top,
        Pat::Int(i) | Pat::IntS(i, _) | Pat::Const(i) => int && *i >= lo && *i <= hi,
        Pat::Char(c) => lty == "Char" && char_src(*c).is_some(),
        Pat::Str(_) => lty == "Str",
        Pat::Alt(ps) => top && ps.iter().all(|q| lit_pat_ok(q, lty, false)),
        _ => false,
    }
}

fn p_lit_req(l: &[Sx]) -> Option<Req> {
    let (lty, ty): (&'static str, Ty) = match atom(&l[1])? {
        "Int64" => ("Int64", Ty::Int),
        "Int32" => ("Int32", Ty::Int),
        "UInt8" => ("UInt8", Ty::Int),
        "Char" => ("Char", Ty::Char),
        "Str" => ("Str", Ty::Str),
        _ => return None,
    };
    let arms = p_arms(&l[2])?;
    if arms.is_empty() || arms.len() > 62 || !arms.iter().all(|a| lit_pat_ok(&a.1, lty, true)) {
        return None;
    }
    let (lo, hi) = lit_range(lty);
    let mut values = Vec::new();
    for v in list(&l[3])? {
        let a = atom(v)?;
        if lty == "Str" {
            if a != "-" && !a.chars().all(|c| c.is_ascii_lowercase() || c.is_ascii_digit()) {
                return None;
            }
            values.push(LVal::S(if a == "-" { String::new() } else { a.to_string() }));
        } else {
            let i: i64 = a.parse().ok()?;
            if i < lo || i > hi || (lty == "Char" && char::from_u32(i as u32).is_none()) {
                return None;
            }
            values.push(LVal::I(i));
        }
    }
    Some(Req { decls: Vec::new(), ty, arms, lit: Some(LitReq { lty, values }) })
}

/// a character literal as it is written in the program text; None for characters the generator does not write
fn char_src(c: u32) -> Option<String> {
    let ch = char::from_u32(c)?;
    Some(match ch {
        '\0' => "'\\0'".to_string(),
        '\n' => "'\\n'".to_string(),
        '\t' => "'\\t'".to_string(),
        '\r' => "'\\r'".to_string(),
        '\'' | '\\' => format!("'\\{}'", ch),
        c if (c as u32) < 0x20 || c as u32 == 0x7f => return None,
        _ => format!("'{}'", ch),
    })
}

// ───────────────────────────── request printer ─────────────────────────────

fn show_ty(t: &Ty) -> String {
    match t {
        Ty::Bool => "Bool".into(),
        Ty::Int => "Int".into(),
        Ty::Char => "Char".into(),
        Ty::Str => "Str".into(),
        Ty::Named(n) => n.clone(),
    }
}

fn show_fields(f: &Fields) -> String {
    match f {
        Fields::Pos(t) => {
            let mut s = "pos".to_string();
            for x in t {
                s += " ";
                s += &show_ty(x);
            }
            s
        }
        Fields::Named(fs) => {
            let mut s = "named".to_string();
            for (n, t) in fs {
                s += &format!(" ({} {})", n, show_ty(t));
            }
            s
        }
    }
}

fn show_decl(d: &Decl) -> String {
    match d {
        Decl::Enum(n, vs) => {
            let mut s = format!("(enum {}", n);
            for (vn, f) in vs {
                s += &format!(" ({} {})", vn, show_fields(f));
            }
            s + ")"
        }
        Decl::Struct(n, f) => format!("(struct {} {})", n, show_fields(f)),
        Decl::Class(n, f) => format!("(class {} {})", n, show_fields(f)),
        Decl::Tuple(n, t) => {
            let mut s = format!("(tuple {}", n);
            for x in t {
                s += " ";
                s += &show_ty(x);
            }
            s + ")"
        }
    }
}

fn show_pat(p: &Pat) -> String {
    let subs = |ss: &[Sub]| {
        let mut s = String::new();
        for x in ss {
            s += " ";
            s += &match x {
                Sub::Rest => "..".to_string(),
                Sub::P(p) => show_pat(p),
                Sub::Named(f, p) => format!("(= {} {})", f, show_pat(p)),
            };
        }
        s
    };
    match p {
        Pat::Wild => "_".into(),
        Pat::Var(n) => format!("(v {})", n),
        Pat::Bool(b) => b.to_string(),
        Pat::Int(i) => format!("(i {})", i),
        Pat::IntS(i, s) => format!("(i {} {})", i, s),
        Pat::Const(i) => format!("(k {})", i),
        Pat::Char(c) => format!("(c {})", c),
        Pat::Str(s) if s.is_empty() => "(s)".into(),
        Pat::Str(s) => format!("(s {})", s),
        Pat::Alt(ps) => format!("(| {})", ps.iter().map(show_pat).collect::<Vec<_>>().join(" ")),
        Pat::Tuple(ss) => format!("(t{})", subs(ss)),
        Pat::Ctor(n, ss) => format!("(k {}{})", n, subs(ss)),
        Pat::Variant(e, v, ss) => format!("(e {} {}{})", e, v, subs(ss)),
    }
}

fn show_req(r: &Req) -> String {
    let d = r.decls.iter().map(show_decl).collect::<Vec<_>>().join(" ");
    let a = r
        .arms
        .iter()
        .map(|(g, p)| format!("({} {})", if *g { "g" } else { "n" }, show_pat(p)))
        .collect::<Vec<_>>()
        .join(" ");
    if let Some(lit) = &r.lit {
        let v = lit
            .values
            .iter()
            .map(|v| match v {
                LVal::I(i) => i.to_string(),
                LVal::S(s) if s.is_empty() => "-".to_string(),
                LVal::S(s) => s.clone(),
            })
            .collect::<Vec<_>>()
            .join(" ");
        return format!("(lm {} ({}) ({}))", lit.lty, a, v);
    }
    format!("(m ({}) {} ({}))", d, show_ty(&r.ty), a)
}

// ───────────────────────────── renderer (Dora source + span table) ─────────────────────────────

type SpanTable = HashMap<(u32, u32), (usize, Vec<usize>)>;

/// Renders declarations and `fn <fname>`; every declared type name gets `prefix` in front.
struct Renderer<'a> {
    decls: &'a [Decl],
    prefix: &'a str,
    out: String,
    spans: SpanTable,
    /// source type of `Ty::Int` (Int64 unless the request is an `lm` request over Int32 / UInt8)
    int_ty: &'static str,
    /// values of the `const` declarations the patterns refer to
    consts: Vec<i64>,
}

/// an integer of type `int_ty` as an EXPRESSION (negative values parenthesised, the minimum computed)
fn int_expr(i: i64, int_ty: &str) -> String {
    let sfx = match int_ty {
        "Int32" => "i32",
        "UInt8" => "u8",
        _ => "",
    };
    let (lo, _) = lit_range(int_ty);
    if i == lo && i < 0 {
        format!("(-{}{} - 1{})", -(i + 1), sfx, sfx)
    } else if i < 0 {
        format!("(-{}{})", -i, sfx)
    } else {
        format!("{}{}", i, sfx)
    }
}

/// an integer literal PATTERN of type `int_ty` in the given spelling
fn int_pat_src(i: i64, sp: char, int_ty: &str) -> String {
    let sfx = match int_ty {
        "Int32" => "i32",
        "UInt8" => "u8",
        _ => "",
    };
    let bits: u64 = match int_ty {
        "Int32" => i as i32 as u32 as u64,
        "UInt8" => i as u8 as u64,
        _ => i as u64,
    };
    match sp {
        'p' => i.to_string(),
        'x' => format!("0x{:X}{}", bits, sfx),
        'b' => format!("0b{:b}{}", bits, sfx),
        'u' => {
            let digits = i.unsigned_abs().to_string();
            let mut s = String::new();
            for (k, ch) in digits.chars().enumerate() {
                if k > 0 && (digits.len() - k) % 3 == 0 {
                    s.push('_');
                }
                s.push(ch);
            }
            format!("{}{}{}", if i < 0 { "-" } else { "" }, s, sfx)
        }
        _ => format!("{}{}", i, sfx),
    }
}

fn const_name(prefix: &str, i: i64) -> String {
    if i < 0 {
        format!("{}KM{}", prefix, i.unsigned_abs())
    } else {
        format!("{}KP{}", prefix, i)
    }
}

impl<'a> Renderer<'a> {
    fn new(decls: &'a [Decl], prefix: &'a str, out: String) -> Renderer<'a> {
        Renderer { decls, prefix, out, spans: HashMap::new(), int_ty: "Int64", consts: Vec::new() }
    }

    fn for_req(req: &'a Req, prefix: &'a str, out: String) -> Renderer<'a> {
        let mut r = Renderer::new(&req.decls, prefix, out);
        if let Some(lit) = &req.lit {
            if matches!(lit.lty, "Int32" | "UInt8") {
                r.int_ty = lit.lty;
            }
        }
        r
    }

    /// the `const` declarations collected while rendering the patterns
    fn consts_src(&mut self) {
        let mut cs = std::mem::take(&mut self.consts);
        cs.sort();
        cs.dedup();
        for c in cs {
            // a constant initialiser must be a (possibly negated) literal
            self.out += &format!("const {}: {} = {};\n", const_name(self.prefix, c), self.int_ty, int_pat_src(c, 'd', self.int_ty));
        }
    }

    fn ty_src(&self, t: &Ty) -> String {
        match t {
            Ty::Bool => "Bool".into(),
            Ty::Int => self.int_ty.into(),
            Ty::Char => "Char".into(),
            Ty::Str => "String".into(),
            Ty::Named(n) => match find_decl(self.decls, n) {
                Some(Decl::Tuple(_, ts)) => {
                    format!("({})", ts.iter().map(|x| self.ty_src(x)).collect::<Vec<_>>().join(", "))
                }
                _ => format!("{}{}", self.prefix, n),
            },
        }
    }

    fn fields_src(&self, f: &Fields) -> String {
        match f {
            Fields::Pos(ts) if ts.is_empty() => String::new(),
            Fields::Named(fs) if fs.is_empty() => String::new(),
            Fields::Pos(ts) => format!("({})", ts.iter().map(|x| self.ty_src(x)).collect::<Vec<_>>().join(", ")),
            Fields::Named(fs) => format!(
                " {{ {} }}",
                fs.iter().map(|(n, t)| format!("{}: {}", n, self.ty_src(t))).collect::<Vec<_>>().join(", ")
            ),
        }
    }

    fn decls_src(&mut self) {
        for d in self.decls {
            let line = match d {
                Decl::Enum(n, vs) => format!(
                    "enum {}{} {{ {} }}\n",
                    self.prefix,
                    n,
                    vs.iter().map(|(vn, f)| format!("{}{}", vn, self.fields_src(f))).collect::<Vec<_>>().join(", ")
                ),
                Decl::Struct(n, f) => format!("struct {}{}{}\n", self.prefix, n, self.fields_src(f)),
                Decl::Class(n, f) => format!("class {}{}{}\n", self.prefix, n, self.fields_src(f)),
                Decl::Tuple(..) => String::new(),
            };
            self.out += &line;
        }
    }

    fn fn_src(&mut self, req: &Req, fname: &str) {
        self.out += &format!("fn {}(x: {}, m: Int64): Int64 {{\n  match x {{\n", fname, self.ty_src(&req.ty));
        for (i, (g, p)) in req.arms.iter().enumerate() {
            self.out += "    ";
            let mut path = Vec::new();
            self.pat(p, i, &mut path);
            if *g {
                self.out += &format!(" if (m & {}) != 0", 1u64 << i);
            }
            self.out += &format!(" => {},\n", i);
        }
        self.out += "  }\n}\n";
        self.consts_src();
    }

    fn subs(&mut self, ss: &[Sub], arm: usize, path: &mut Vec<usize>) {
        for (i, s) in ss.iter().enumerate() {
            if i > 0 {
                self.out += ", ";
            }
            path.push(i);
            match s {
                Sub::Rest => self.out += "..",
                Sub::P(p) => self.pat(p, arm, path),
                Sub::Named(f, p) => {
                    self.out += f;
                    self.out += " = ";
                    self.pat(p, arm, path);
                }
            }
            path.pop();
        }
    }

    fn pat(&mut self, p: &Pat, arm: usize, path: &mut Vec<usize>) {
        let start = self.out.len();
        match p {
            Pat::Wild => self.out += "_",
            Pat::Var(n) => self.out += n,
            Pat::Bool(b) => self.out += &b.to_string(),
            Pat::Int(i) if self.int_ty == "Int64" => self.out += &i.to_string(),
            Pat::Int(i) => self.out += &int_pat_src(*i, 'd', self.int_ty),
            Pat::IntS(i, sp) => self.out += &int_pat_src(*i, *sp, self.int_ty),
            Pat::Const(i) => {
                self.consts.push(*i);
                self.out += &const_name(self.prefix, *i);
            }
            Pat::Char(c) => self.out += &char_src(*c).unwrap_or_else(|| "'?'".to_string()),
            Pat::Str(s) => self.out += &format!("\"{}\"", s),
            Pat::Alt(ps) => {
                for (i, q) in ps.iter().enumerate() {
                    if i > 0 {
                        self.out += " | ";
                    }
                    path.push(i);
                    self.pat(q, arm, path);
                    path.pop();
                }
            }
            Pat::Tuple(ss) => {
                self.out += "(";
                self.subs(ss, arm, path);
                self.out += ")";
            }
            Pat::Ctor(n, ss) => {
                self.out += &format!("{}{}", self.prefix, n);
                if !ss.is_empty() {
                    self.out += "(";
                    self.subs(ss, arm, path);
                    self.out += ")";
                }
            }
            Pat::Variant(e, v, ss) => {
                self.out += &format!("{}{}::{}", self.prefix, e, v);
                if !ss.is_empty() {
                    self.out += "(";
                    self.subs(ss, arm, path);
                    self.out += ")";
                }
            }
        }
        let key = (start as u32, (self.out.len() - start) as u32);
        self.spans.entry(key).or_insert_with(|| (arm, path.clone()));
    }
}

fn render_single(req: &Req) -> (String, SpanTable) {
    let mut r = Renderer::for_req(req, "", String::new());
    r.decls_src();
    r.fn_src(req, "f");
    (r.out, r.spans)
}

// ───────────────────────────── runner ─────────────────────────────

thread_local! {
    static PANIC_LOC: RefCell<Option<String>> = const { RefCell::new(None) };
}

fn install_panic_hook() {
    std::panic::set_hook(Box::new(|info| {
        let loc = match info.location() {
            Some(l) => format!("{}:{}", l.file().rsplit(['/', '\\']).next().unwrap_or(""), l.line()),
            None => "?".to_string(),
        };
        PANIC_LOC.with(|p| {
            let mut p = p.borrow_mut();
            if p.is_none() {
                *p = Some(loc);
            }
        });
    }));
}

/// What the front end said about one program.
struct Diags {
    other_errors: Vec<&'static str>,  // message templates of errors that are not NON_EXHAUSTIVE_MATCH
    missing: Vec<(u32, String)>,      // (span start, text after "Missing patterns: ")
    useless: Vec<(u32, u32)>,         // spans of USELESS_PATTERN warnings in the program file
}

fn is_desc(e: &dora_frontend::ErrorDescriptor, d: &'static dora_frontend::error::diagnostics::DiagnosticDescriptor) -> bool {
    std::ptr::eq(e.desc, d) || e.desc.message == d.message
}

/// Runs the real front end on `src`; Err = basename:line of a panic.
fn front_end(src: &str) -> Result<Diags, String> {
    use dora_frontend::error::diagnostics::{NON_EXHAUSTIVE_MATCH, USELESS_PATTERN};
    use dora_frontend::sema::{Sema, SemaCreationParams};
    PANIC_LOC.with(|p| *p.borrow_mut() = None);
    let res = std::panic::catch_unwind(std::panic::AssertUnwindSafe(|| {
        let args = SemaCreationParams::new().set_program_content(src.to_string());
        let mut sa = Sema::new(args);
        dora_frontend::check_program(&mut sa);
        let mut d = Diags { other_errors: Vec::new(), missing: Vec::new(), useless: Vec::new() };
        let diag = sa.diag.borrow();
        for e in diag.errors() {
            if is_desc(e, &NON_EXHAUSTIVE_MATCH) {
                let msg = e.message(&sa);
                let text = match msg.find("Missing patterns: ") {
                    Some(k) => msg[k + "Missing patterns: ".len()..].to_string(),
                    None => msg,
                };
                d.missing.push((e.span.as_ref().map(|s| s.start()).unwrap_or(0), text));
            } else {
                d.other_errors.push(e.desc.message);
            }
        }
        for w in diag.warnings() {
            if !is_desc(w, &USELESS_PATTERN) {
                continue;
            }
            let in_program = match w.file_id {
                Some(id) => sa.file(id).path == sa.program_file,
                None => false,
            };
            if let (true, Some(s)) = (in_program, w.span.as_ref()) {
                d.useless.push((s.start(), s.len()));
            }
        }
        d
    }));
    res.map_err(|_| PANIC_LOC.with(|p| p.borrow().clone()).unwrap_or_else(|| "?".to_string()))
}

fn format_response(missing: Option<&str>, useless: &[(u32, u32)], spans: &SpanTable) -> String {
    let mut list: Vec<(usize, Vec<usize>)> = Vec::new();
    for u in useless {
        match spans.get(u) {
            Some(x) => list.push(x.clone()),
            None => return format!("!error unknown-span {}+{}", u.0, u.1),
        }
    }
    list.sort();
    list.dedup();
    let items: Vec<String> = list
        .iter()
        .map(|(a, p)| format!("{}:{}", a, p.iter().map(|x| x.to_string()).collect::<Vec<_>>().join(".")))
        .collect();
    let verdict = match missing {
        None => "exhaustive".to_string(),
        Some(m) => format!("missing[{}]", m),
    };
    format!("{} useless[{}]", verdict, items.join(";"))
}

/// The reference path: one request = one program, exactly as specified.
fn answer_single(req: &Req) -> String {
    let (src, spans) = render_single(req);
    match front_end(&src) {
        Err(loc) => format!("!panic {}", loc),
        Ok(d) => {
            if !d.other_errors.is_empty() {
                return format!("!error {}", d.other_errors.join("; "));
            }
            format_response(d.missing.first().map(|m| m.1.as_str()), &d.useless, &spans)
        }
    }
}

fn has_tuple_rest(p: &Pat) -> bool {
    let any = |ss: &[Sub]| {
        ss.iter().any(|s| match s {
            Sub::P(p) | Sub::Named(_, p) => has_tuple_rest(p),
            Sub::Rest => false,
        })
    };
    match p {
        Pat::Tuple(ss) => ss.iter().any(|s| matches!(s, Sub::Rest)) || any(ss),
        Pat::Ctor(_, ss) | Pat::Variant(_, _, ss) => any(ss),
        Pat::Alt(ps) => ps.iter().any(has_tuple_rest),
        _ => false,
    }
}

/// Speed-up only: several requests share one front-end run (loading the standard library dominates).
/// Type names get a per-request prefix that is removed again from the `missing[..]` text; any panic or
/// non-exhaustiveness error in a batch splits it, down to the reference path `answer_single`.
fn answer_batch(items: &[(usize, &str, &Req)], out: &mut Vec<String>) {
    if items.is_empty() {
        return;
    }
    if items.len() == 1 {
        out[items[0].0] = answer_single(items[0].2);
        return;
    }
    let mut src = String::new();
    let mut parts: Vec<(u32, u32, SpanTable, String)> = Vec::new(); // (start, end, spans, prefix)
    for (k, (_, _, req)) in items.iter().enumerate() {
        let prefix = format!("Zq{}z", k);
        let start = src.len() as u32;
        let mut r = Renderer::for_req(req, &prefix, std::mem::take(&mut src));
        r.decls_src();
        r.fn_src(req, &format!("f{}", k));
        src = r.out;
        parts.push((start, src.len() as u32, r.spans, prefix));
    }
    let split = |out: &mut Vec<String>| {
        let h = items.len() / 2;
        answer_batch(&items[..h], out);
        answer_batch(&items[h..], out);
    };
    match front_end(&src) {
        Ok(d) if d.other_errors.is_empty() => {
            for (k, (idx, _, _)) in items.iter().enumerate() {
                let (s, e, spans, prefix) = &parts[k];
                let inside = |p: u32| p >= *s && p < *e;
                let missing = d.missing.iter().find(|m| inside(m.0)).map(|m| m.1.replace(prefix.as_str(), ""));
                let useless: Vec<(u32, u32)> = d.useless.iter().filter(|u| inside(u.0)).cloned().collect();
                out[*idx] = format_response(missing.as_deref(), &useless, spans);
            }
        }
        _ => split(out),
    }
}

fn run(path: Option<&str>) {
    install_panic_hook();
    let input: Box<dyn BufRead> = match path {
        Some(p) => Box::new(std::io::BufReader::new(std::fs::File::open(p).expect("open request file"))),
        None => Box::new(std::io::BufReader::new(std::io::stdin())),
    };
    let batch: usize = std::env::var("C11_BATCH").ok().and_then(|v| v.parse().ok()).unwrap_or(24).max(1);
    let lines: Vec<String> =
        input.lines().map(|l| l.expect("read line").trim().to_string()).filter(|l| !l.is_empty()).collect();
    let reqs: Vec<Option<Req>> = lines.iter().map(|l| p_req(l)).collect();
    let mut out: Vec<String> = vec!["!badreq".to_string(); lines.len()];
    let mut pending: Vec<(usize, &str, &Req)> = Vec::new();
    for (i, r) in reqs.iter().enumerate() {
        let Some(req) = r else { continue };
        // requests that are likely to panic, or that mention the batch prefix, go alone
        if batch == 1 || lines[i].contains("Zq") || req.arms.iter().any(|a| has_tuple_rest(&a.1)) {
            out[i] = answer_single(req);
            continue;
        }
        pending.push((i, &lines[i], req));
        if pending.len() == batch {
            answer_batch(&pending, &mut out);
            pending.clear();
        }
    }
    answer_batch(&pending, &mut out);
    let stdout = std::io::stdout();
    let mut w = std::io::BufWriter::new(stdout.lock());
    for l in &out {
        writeln!(w, "{}", l).unwrap();
    }
    w.flush().unwrap();
}

// ───────────────────────────── prog: one executable Dora program ─────────────────────────────

fn join_product(lists: &[Vec<String>]) -> Vec<Vec<String>> {
    let mut res: Vec<Vec<String>> = vec![Vec::new()];
    for l in lists {
        let mut next = Vec::with_capacity(res.len() * l.len());
        for r in &res {
            for v in l {
                let mut x = r.clone();
                x.push(v.clone());
                next.push(x);
            }
        }
        res = next;
    }
    res
}

fn ctor_values(decls: &[Decl], prefix: &str, head: &str, f: &Fields) -> Option<Vec<String>> {
    if f.len() == 0 {
        return Some(vec![head.to_string()]);
    }
    let per_field = f.tys().iter().map(|t| values(decls, prefix, t)).collect::<Option<Vec<_>>>()?;
    Some(
        join_product(&per_field)
            .into_iter()
            .map(|vs| {
                let args: Vec<String> = match f {
                    Fields::Pos(_) => vs,
                    Fields::Named(fs) => fs.iter().zip(vs).map(|((n, _), v)| format!("{} = {}", n, v)).collect(),
                };
                format!("{}({})", head, args.join(", "))
            })
            .collect(),
    )
}

/// All values of a type in canonical order; None if the type contains Int/Char/Str.
fn values(decls: &[Decl], prefix: &str, t: &Ty) -> Option<Vec<String>> {
    match t {
        Ty::Bool => Some(vec!["false".into(), "true".into()]),
        Ty::Int | Ty::Char | Ty::Str => None,
        Ty::Named(n) => match find_decl(decls, n)? {
            Decl::Enum(_, vs) => {
                let mut all = Vec::new();
                for (vn, f) in vs {
                    all.extend(ctor_values(decls, prefix, &format!("{}{}::{}", prefix, n, vn), f)?);
                }
                Some(all)
            }
            Decl::Struct(_, f) | Decl::Class(_, f) => ctor_values(decls, prefix, &format!("{}{}", prefix, n), f),
            Decl::Tuple(_, ts) => {
                let per = ts.iter().map(|t| values(decls, prefix, t)).collect::<Option<Vec<_>>>()?;
                Some(join_product(&per).into_iter().map(|v| format!("({})", v.join(", "))).collect())
            }
        },
    }
}

fn prog(path: &str) {
    let text = std::fs::read_to_string(path).expect("open request file");
    let mut out = String::from("use std::string::Stringable;\n");
    let mut calls = Vec::new();
    for (k, line) in text.lines().map(|l| l.trim()).filter(|l| !l.is_empty()).enumerate() {
        let Some(req) = p_req(line) else { continue };
        let prefix = format!("R{}", k);
        let guarded: Vec<usize> = req.arms.iter().enumerate().filter(|a| a.1 .0).map(|a| a.0).collect();
        if let Some(lit) = &req.lit {
            // literal scrutinee: the selector values come out of an array at run time, so neither code generator
            // can fold the dispatch away
            if lit.values.is_empty() || guarded.len() > 3 {
                continue;
            }
            let mut r = Renderer::for_req(&req, &prefix, std::mem::take(&mut out));
            r.fn_src(&req, &format!("f{}", k));
            let ety = r.ty_src(&req.ty);
            let int_ty = r.int_ty;
            out = r.out;
            let vals: Vec<String> = lit
                .values
                .iter()
                .map(|v| match v {
                    LVal::S(s) => format!("\"{}\"", s),
                    LVal::I(i) if lit.lty == "Char" => format!("{}.to_char_unchecked()", i),
                    LVal::I(i) => int_expr(*i, int_ty),
                })
                .collect();
            out += &format!("fn run{}() {{\n  let vals = Array[{}]::new({});\n", k, ety, vals.join(", "));
            for c in 0..(1u64 << guarded.len()) {
                let mut m = 0u64;
                for (j, arm) in guarded.iter().enumerate() {
                    if c >> j & 1 == 1 {
                        m |= 1 << arm;
                    }
                }
                out += &format!("  print(\"{} {}\");\n  for v in vals {{ print(\" \" + f{}(v, {}).to_string()); }}\n  println(\"\");\n", k, c, k, m);
            }
            out += "}\n";
            calls.push(format!("  run{}();\n", k));
            continue;
        }
        let Some(vals) = values(&req.decls, &prefix, &req.ty) else { continue };
        let mut r = Renderer::new(&req.decls, &prefix, std::mem::take(&mut out));
        r.decls_src();
        r.fn_src(&req, &format!("f{}", k));
        out = r.out;
        out += &format!("fn run{}() {{\n", k);
        for c in 0..(1u64 << guarded.len()) {
            let mut m = 0u64;
            for (j, arm) in guarded.iter().enumerate() {
                if c >> j & 1 == 1 {
                    m |= 1 << arm;
                }
            }
            out += &format!("  print(\"{} {}\");\n", k, c);
            for v in &vals {
                out += &format!("  print(\" \" + f{}({}, {}).to_string());\n", k, v, m);
            }
            out += "  println(\"\");\n";
        }
        out += "}\n";
        calls.push(format!("  run{}();\n", k));
    }
    out += "fn main() {\n";
    for c in calls {
        out += &c;
    }
    out += "}\n";
    print!("{}", out);
}

// ───────────────────────────── generator ─────────────────────────────

#[derive(Clone)]
enum Head {
    Tuple,
    Ctor(String),
    Variant(String, String),
}

/// One way to build a value of a type: a tuple, a struct/class constructor or an enum variant.
#[derive(Clone)]
struct Form {
    head: Head,
    fields: Fields,
}

fn forms(decls: &[Decl], t: &Ty) -> Vec<Form> {
    let Ty::Named(n) = t else { return Vec::new() };
    match find_decl(decls, n) {
        Some(Decl::Enum(_, vs)) => {
            vs.iter().map(|(vn, f)| Form { head: Head::Variant(n.clone(), vn.clone()), fields: f.clone() }).collect()
        }
        Some(Decl::Struct(_, f)) | Some(Decl::Class(_, f)) => vec![Form { head: Head::Ctor(n.clone()), fields: f.clone() }],
        Some(Decl::Tuple(_, ts)) => vec![Form { head: Head::Tuple, fields: Fields::Pos(ts.clone()) }],
        None => Vec::new(),
    }
}

fn mk(head: &Head, subs: Vec<Sub>) -> Pat {
    match head {
        Head::Tuple => Pat::Tuple(subs),
        Head::Ctor(n) => Pat::Ctor(n.clone(), subs),
        Head::Variant(e, v) => Pat::Variant(e.clone(), v.clone(), subs),
    }
}

fn product(lists: &[Vec<Pat>]) -> Vec<Vec<Pat>> {
    let mut res: Vec<Vec<Pat>> = vec![Vec::new()];
    for l in lists {
        let mut next = Vec::new();
        for r in &res {
            for v in l {
                let mut x = r.clone();
                x.push(v.clone());
                next.push(x);
            }
        }
        res = next;
    }
    res
}

/// Field indices addressed by the explicit sub-patterns when `..` stands at position p among k others.
fn rest_field_indices(n: usize, k: usize, p: usize) -> Vec<usize> {
    (0..p).chain(n - (k - p)..n).collect()
}

/// `_`, literals and constructor patterns with all fields written, nested up to `depth`.
fn small(decls: &[Decl], t: &Ty, depth: u32) -> Vec<Pat> {
    let mut v = vec![Pat::Wild];
    match t {
        Ty::Bool => v.extend([Pat::Bool(true), Pat::Bool(false)]),
        Ty::Int => v.extend([Pat::Int(0), Pat::Int(1)]),
        Ty::Char => v.push(Pat::Char('a' as u32)),
        Ty::Str => v.push(Pat::Str("a".into())),
        Ty::Named(_) if depth == 0 => {}
        Ty::Named(_) => {
            for f in forms(decls, t) {
                v.extend(full_patterns(decls, &f, depth));
            }
        }
    }
    v
}

fn full_patterns(decls: &[Decl], f: &Form, depth: u32) -> Vec<Pat> {
    let per: Vec<Vec<Pat>> = f.fields.tys().iter().map(|t| small(decls, t, depth - 1)).collect();
    product(&per)
        .into_iter()
        .map(|ps| {
            let subs = match &f.fields {
                Fields::Pos(_) => ps.into_iter().map(Sub::P).collect(),
                Fields::Named(fs) => fs.iter().zip(ps).map(|((n, _), p)| Sub::Named(n.clone(), p)).collect(),
            };
            mk(&f.head, subs)
        })
        .collect()
}

/// Every placement of one `..` in a positional pattern with 0..arity-1 other sub-patterns.
fn rest_patterns(decls: &[Decl], f: &Form) -> Vec<Pat> {
    let Fields::Pos(ts) = &f.fields else { return Vec::new() };
    let n = ts.len();
    let mut v = Vec::new();
    for k in 0..n {
        for p in 0..=k {
            let per: Vec<Vec<Pat>> = rest_field_indices(n, k, p).iter().map(|&i| small(decls, &ts[i], 1)).collect();
            for ps in product(&per) {
                let mut subs: Vec<Sub> = ps.into_iter().map(Sub::P).collect();
                subs.insert(p, Sub::Rest);
                v.push(mk(&f.head, subs));
            }
        }
    }
    v
}

fn permutations(xs: &[usize]) -> Vec<Vec<usize>> {
    if xs.len() <= 1 {
        return vec![xs.to_vec()];
    }
    let mut v = Vec::new();
    for i in 0..xs.len() {
        let mut rest = xs.to_vec();
        let h = rest.remove(i);
        for mut p in permutations(&rest) {
            p.insert(0, h);
            v.push(p);
        }
    }
    v
}

/// Named-field patterns: every subset of the fields in every order; a trailing `..` is optional when all
/// fields are written and required otherwise.
fn named_patterns(decls: &[Decl], f: &Form) -> Vec<Pat> {
    let Fields::Named(fs) = &f.fields else { return Vec::new() };
    let n = fs.len();
    let mut v = Vec::new();
    for mask in 0..(1usize << n) {
        let chosen: Vec<usize> = (0..n).filter(|i| mask >> i & 1 == 1).collect();
        for perm in permutations(&chosen) {
            let per: Vec<Vec<Pat>> = perm.iter().map(|&i| small(decls, &fs[i].1, 1)).collect();
            for ps in product(&per) {
                let subs: Vec<Sub> = perm.iter().zip(ps).map(|(&i, p)| Sub::Named(fs[i].0.clone(), p)).collect();
                if chosen.len() == n && n > 0 {
                    v.push(mk(&f.head, subs.clone()));
                }
                let mut with_rest = subs;
                with_rest.push(Sub::Rest);
                v.push(mk(&f.head, with_rest));
            }
        }
    }
    v
}

fn alt_patterns(decls: &[Decl], t: &Ty) -> Vec<Pat> {
    let (tt, ff) = (Pat::Bool(true), Pat::Bool(false));
    if *t == Ty::Bool {
        return vec![
            Pat::Alt(vec![tt.clone(), ff.clone()]),
            Pat::Alt(vec![tt.clone(), tt.clone()]),
            Pat::Alt(vec![ff.clone(), Pat::Wild]),
            Pat::Alt(vec![ff.clone(), tt.clone(), ff.clone()]),
        ];
    }
    let mut v = Vec::new();
    let fs = forms(decls, t);
    let ctors: Vec<Pat> = fs.iter().flat_map(|f| full_patterns(decls, f, 1)).collect();
    if ctors.len() >= 2 {
        let (a, b, z) = (ctors[0].clone(), ctors[1].clone(), ctors[ctors.len() - 1].clone());
        v.push(Pat::Alt(vec![a.clone(), z.clone()]));
        v.push(Pat::Alt(vec![b.clone(), a.clone()]));
        v.push(Pat::Alt(vec![z.clone(), z.clone()]));
        v.push(Pat::Alt(vec![a.clone(), Pat::Wild]));
    }
    // an alternative nested in the first and in the last field of every form
    for f in &fs {
        let tys = f.fields.tys();
        let n = tys.len();
        let mut places = vec![];
        if n > 0 {
            places.push(0);
        }
        if n > 1 {
            places.push(n - 1);
        }
        for j in places {
            let inner: Vec<Pat> = if tys[j] == Ty::Bool {
                vec![
                    Pat::Alt(vec![tt.clone(), ff.clone()]),
                    Pat::Alt(vec![ff.clone(), ff.clone()]),
                    Pat::Alt(vec![tt.clone(), Pat::Wild]),
                ]
            } else {
                let c: Vec<Pat> = small(decls, &tys[j], 1).into_iter().skip(1).collect();
                if c.len() >= 2 {
                    vec![Pat::Alt(vec![c[0].clone(), c[1].clone()]), Pat::Alt(vec![c[1].clone(), c[1].clone()])]
                } else {
                    vec![]
                }
            };
            for alt in inner {
                for other in [Pat::Wild, Pat::Bool(true)] {
                    let ps: Vec<Pat> = (0..n)
                        .map(|i| {
                            if i == j {
                                alt.clone()
                            } else if tys[i] == Ty::Bool {
                                other.clone()
                            } else {
                                Pat::Wild
                            }
                        })
                        .collect();
                    let subs = match &f.fields {
                        Fields::Pos(_) => ps.into_iter().map(Sub::P).collect(),
                        Fields::Named(fs) => fs.iter().zip(ps).map(|((n, _), p)| Sub::Named(n.clone(), p)).collect(),
                    };
                    v.push(mk(&f.head, subs));
                }
            }
        }
    }
    v
}

/// The systematic pattern pool of a scrutinee type (duplicates removed, order deterministic).
fn pool(decls: &[Decl], t: &Ty) -> Vec<Pat> {
    let mut v = vec![Pat::Wild, Pat::Var("b0".into())];
    v.extend(small(decls, t, 2).into_iter().skip(1));
    for f in forms(decls, t) {
        v.extend(rest_patterns(decls, &f));
        v.extend(named_patterns(decls, &f));
    }
    v.extend(alt_patterns(decls, t));
    let mut seen = HashSet::new();
    v.retain(|p| seen.insert(show_pat(p)));
    v
}

const FAMILY: &[&str] = &[
    "(m () Bool ())",
    "(m ((enum E2 (A pos) (B pos))) E2 ())",
    "(m ((enum E3 (A pos) (B pos) (C pos))) E3 ())",
    "(m ((enum O (N pos) (S pos Bool))) O ())",
    "(m ((enum P (A pos Bool Bool) (B pos))) P ())",
    "(m ((enum Q (A pos Bool Bool Bool) (B pos Bool))) Q ())",
    "(m ((enum N (A named (x Bool) (y Bool)) (B pos))) N ())",
    "(m ((tuple T0 Bool Bool)) T0 ())",
    "(m ((enum E2 (A pos) (B pos)) (tuple T0 Bool E2)) T0 ())",
    "(m ((enum O (N pos) (S pos Bool)) (tuple T0 O Bool)) T0 ())",
    "(m ((tuple T0 Bool Bool Bool)) T0 ())",
    "(m ((struct Sp pos Bool Bool)) Sp ())",
    "(m ((struct Sn named (a Bool) (b Bool))) Sn ())",
    "(m ((enum E2 (A pos) (B pos)) (class Kn named (a Bool) (b E2))) Kn ())",
    "(m ((enum O (N pos) (S pos Bool)) (enum O2 (N pos) (S pos O))) O2 ())",
];

fn next_prime(mut n: u64) -> u64 {
    loop {
        if n < 4 || (2..).take_while(|d| d * d <= n).all(|d| n % d != 0) {
            return n;
        }
        n += 1;
    }
}

/// Part 1: all matrices of `rows` rows over the pools (each arm guarded or not), thinned to ~budget cases.
fn gen_systematic_rows(fams: &[(Req, Vec<Pat>)], rows: u32, budget: u64, max_pool: usize) {
    // (family, indices of the pool entries used)
    let secs: Vec<(usize, Vec<usize>)> = fams
        .iter()
        .enumerate()
        .map(|(fi, (_, pool))| {
            let step = if pool.len() <= max_pool { 1 } else { pool.len().div_ceil(max_pool) };
            (fi, (0..pool.len()).step_by(step).collect())
        })
        .collect();
    let size = |s: &(usize, Vec<usize>)| (s.1.len() as u64).pow(rows) * (1u64 << rows);
    let total: u64 = secs.iter().map(size).sum();
    if budget == 0 || total == 0 {
        return;
    }
    let stride = if total <= budget { 1 } else { next_prime((total + budget - 1) / budget) };
    let mut idx = 0u64;
    while idx < total {
        let mut local = idx;
        let mut si = 0;
        while local >= size(&secs[si]) {
            local -= size(&secs[si]);
            si += 1;
        }
        let (fi, sel) = &secs[si];
        let (base, pool) = &fams[*fi];
        let guards = local % (1 << rows);
        let mut rest = local / (1 << rows);
        let mut req = base.clone();
        for r in 0..rows {
            let p = pool[sel[(rest % sel.len() as u64) as usize]].clone();
            rest /= sel.len() as u64;
            req.arms.push((guards >> r & 1 == 1, p));
        }
        println!("{}", show_req(&req));
        idx += stride;
    }
}

/// Search block for the position of `..`: for every positional constructor form with >= 2 fields, ALL ordered
/// pairs of patterns that contain a `..` (any position, 0..arity-1 other sub-patterns), followed by one arm
/// `V(..)` per other variant — so the match is exhaustive iff the two rest patterns cover the form.
fn gen_rest_search(fams: &[(Req, Vec<Pat>)], budget: u64) {
    let mut cases: Vec<Req> = Vec::new();
    for (base, _) in fams {
        let fs = forms(&base.decls, &base.ty);
        for (fi, f) in fs.iter().enumerate() {
            let Fields::Pos(ts) = &f.fields else { continue };
            if ts.len() < 2 || matches!(f.head, Head::Tuple) {
                continue;
            }
            let r = rest_patterns(&base.decls, f);
            let others: Vec<Pat> = fs
                .iter()
                .enumerate()
                .filter(|(i, _)| *i != fi)
                .map(|(_, g)| mk(&g.head, if g.fields.len() == 0 { vec![] } else { vec![Sub::Rest] }))
                .collect();
            for a in &r {
                for b in &r {
                    let mut req = base.clone();
                    req.arms.push((false, a.clone()));
                    req.arms.push((false, b.clone()));
                    for o in &others {
                        req.arms.push((false, o.clone()));
                    }
                    cases.push(req);
                }
            }
        }
    }
    let total = cases.len() as u64;
    if total == 0 || budget == 0 {
        return;
    }
    let stride = if total <= budget { 1 } else { next_prime((total + budget - 1) / budget) };
    let mut idx = 0u64;
    while idx < total {
        println!("{}", show_req(&cases[idx as usize]));
        idx += stride;
    }
}

fn gen_systematic(sys: u64) {
    let fams: Vec<(Req, Vec<Pat>)> = FAMILY
        .iter()
        .map(|s| {
            let r = p_req(s).expect("family");
            let p = pool(&r.decls, &r.ty);
            (r, p)
        })
        .collect();
    let b1 = sys / 5;
    let b3 = sys / 5;
    let b2 = sys - b1 - b3;
    gen_systematic_rows(&fams, 1, b1, usize::MAX);
    gen_systematic_rows(&fams, 2, b2, usize::MAX);
    gen_systematic_rows(&fams, 3, b3, 12);
    gen_rest_search(&fams, sys / 4);
}

/// Part 2: random declarations and well-typed random patterns.
struct RandGen {
    r: Rng,
    decls: Vec<Decl>,
    nbind: usize,
}

const INTS: &[i64] = &[-1, 0, 1, 2, 7];
const CHARS: &[char] = &['a', 'b', 'z'];
const STRS: &[&str] = &["", "a", "ab", "x9"];

impl RandGen {
    fn shuffle(&mut self, v: &mut Vec<usize>) {
        for i in (1..v.len()).rev() {
            let j = self.r.below(i as u64 + 1) as usize;
            v.swap(i, j);
        }
    }

    /// Field type of nesting depth <= maxd (primitives have depth 0).
    fn field_ty(&mut self, depths: &[u32], maxd: u32) -> (Ty, u32) {
        let cands: Vec<usize> = (0..self.decls.len()).filter(|&i| depths[i] <= maxd).collect();
        let x = self.r.below(100);
        if x < 32 && !cands.is_empty() {
            let i = *self.r.pickv(&cands);
            return (Ty::Named(self.decls[i].name().to_string()), depths[i]);
        }
        let t = match self.r.below(100) {
            0..=64 => Ty::Bool,
            65..=79 => Ty::Int,
            80..=88 => Ty::Char,
            _ => Ty::Str,
        };
        (t, 0)
    }

    fn fields(&mut self, n: usize, named: bool, names: &[&str], depths: &[u32], d: &mut u32) -> Fields {
        let mut tys = Vec::new();
        for _ in 0..n {
            let (t, td) = self.field_ty(depths, 2);
            *d = (*d).max(td + 1);
            tys.push(t);
        }
        if named {
            Fields::Named(tys.into_iter().enumerate().map(|(i, t)| (names[i].to_string(), t)).collect())
        } else {
            Fields::Pos(tys)
        }
    }

    fn decls(&mut self) {
        self.decls.clear();
        let mut depths: Vec<u32> = Vec::new();
        let n = 1 + self.r.below(3) as usize;
        for i in 0..n {
            let mut d = 1;
            let decl = match self.r.below(10) {
                0..=4 => {
                    let nv = 1 + self.r.below(3) as usize;
                    let mut vs = Vec::new();
                    for v in 0..nv {
                        let nf = self.r.below(4) as usize;
                        let named = nf > 0 && self.r.chance(1, 3);
                        let f = self.fields(nf, named, &["x", "y", "z"], &depths, &mut d);
                        vs.push((["A", "B", "C"][v].to_string(), f));
                    }
                    Decl::Enum(format!("E{}", i), vs)
                }
                5 | 6 => {
                    let nf = 1 + self.r.below(3) as usize;
                    let named = self.r.chance(1, 2);
                    Decl::Struct(format!("S{}", i), self.fields(nf, named, &["a", "b", "c"], &depths, &mut d))
                }
                7 => {
                    let nf = 1 + self.r.below(3) as usize;
                    let named = self.r.chance(1, 2);
                    Decl::Class(format!("K{}", i), self.fields(nf, named, &["a", "b", "c"], &depths, &mut d))
                }
                _ => {
                    let nf = 2 + self.r.below(2) as usize;
                    Decl::Tuple(format!("T{}", i), self.fields(nf, false, &[], &depths, &mut d).tys())
                }
            };
            self.decls.push(decl);
            depths.push(d);
        }
    }

    fn literal(&mut self, t: &Ty) -> Pat {
        match t {
            Ty::Bool => Pat::Bool(self.r.chance(1, 2)),
            Ty::Int => Pat::Int(*self.r.pickv(INTS)),
            Ty::Char => Pat::Char(*self.r.pickv(CHARS) as u32),
            Ty::Str => Pat::Str(self.r.pickv(STRS).to_string()),
            Ty::Named(_) => Pat::Wild,
        }
    }

    /// in_alt: somewhere below a `|` (no binders); direct_alt: immediately below a `|` (no nested `|`).
    fn pat(&mut self, t: &Ty, depth: u32, in_alt: bool, direct_alt: bool, top: bool) -> Pat {
        // a catch-all at the root of an arm is rarer than inside a pattern, otherwise nearly every match is exhaustive
        let x = if top { 12 + self.r.below(91) } else if direct_alt { 9 + self.r.below(91) } else { 4 + self.r.below(96) };
        if x < 16 {
            return Pat::Wild;
        }
        if x < 26 && !in_alt && !(top && x >= 18) {
            self.nbind += 1;
            return Pat::Var(format!("b{}", self.nbind - 1));
        }
        if x < 40 && !direct_alt {
            let n = 2 + self.r.below(2) as usize;
            return Pat::Alt((0..n).map(|_| self.pat(t, depth, true, true, false)).collect());
        }
        let fs = forms(&self.decls, t);
        if fs.is_empty() {
            return self.literal(t);
        }
        let f = self.r.pickv(&fs).clone();
        let tys = f.fields.tys();
        let n = tys.len();
        if n == 0 {
            return mk(&f.head, Vec::new());
        }
        let sub = |g: &mut RandGen, t: &Ty| if depth == 0 { Pat::Wild } else { g.pat(t, depth - 1, in_alt, false, false) };
        let subs = match &f.fields {
            Fields::Pos(_) => {
                if self.r.chance(1, 4) {
                    let k = self.r.below(n as u64) as usize;
                    let p = self.r.below(k as u64 + 1) as usize;
                    let mut subs: Vec<Sub> =
                        rest_field_indices(n, k, p).into_iter().map(|i| Sub::P(sub(self, &tys[i]))).collect();
                    subs.insert(p, Sub::Rest);
                    subs
                } else {
                    tys.iter().map(|t| Sub::P(sub(self, t))).collect()
                }
            }
            Fields::Named(fs) => {
                let mut order: Vec<usize> = (0..n).collect();
                self.shuffle(&mut order);
                let rest = self.r.chance(1, 3);
                if rest {
                    order.retain(|_| self.r.chance(1, 2));
                }
                let mut subs: Vec<Sub> =
                    order.into_iter().map(|i| Sub::Named(fs[i].0.clone(), sub(self, &tys[i]))).collect();
                if rest {
                    subs.push(Sub::Rest);
                }
                subs
            }
        };
        mk(&f.head, subs)
    }

    fn request(&mut self) -> Req {
        self.decls();
        let n = self.decls.len();
        let ty = match self.r.below(20) {
            0..=14 => Ty::Named(self.decls[n - 1].name().to_string()),
            15..=17 => Ty::Named(self.decls[self.r.below(n as u64) as usize].name().to_string()),
            _ => self.r.pickv(&[Ty::Bool, Ty::Int, Ty::Char, Ty::Str]).clone(),
        };
        let narms = 1 + self.r.below(6) as usize;
        let catch_all = self.r.chance(1, 4);
        let mut arms = Vec::new();
        let mut guarded = 0;
        for i in 0..narms {
            self.nbind = 0;
            if catch_all && i + 1 == narms {
                let p = if self.r.chance(1, 3) { Pat::Var("b0".into()) } else { Pat::Wild };
                arms.push((false, p));
                break;
            }
            let depth = 1 + self.r.below(3) as u32;
            let p = self.pat(&ty, depth, false, false, true);
            let g = guarded < 3 && self.r.chance(1, 4);
            if g {
                guarded += 1;
            }
            arms.push((g, p));
        }
        Req { decls: self.decls.clone(), ty, arms, lit: None }
    }
}

fn gen(n: usize, sys: u64) {
    gen_systematic(sys);
    let mut g = RandGen { r: Rng::from_env(), decls: Vec::new(), nbind: 0 };
    for _ in 0..n {
        println!("{}", show_req(&g.request()));
    }
}

// ───────────────────────────── generator of literal-scrutinee requests (run-time leg) ─────────────────────────────

/// Selector values for a match with these literals: every literal, both neighbours of the smallest and of the
/// largest, the type's extremes, 0, -1, and values congruent to a literal modulo 2^8, 2^16, 2^31, 2^32 (one to
/// three periods above and below) — whatever of that lies in the type; at most `cap` values.
fn selector_values(lits: &[i64], lty: &str, cap: usize) -> Vec<LVal> {
    let (lo, hi) = lit_range(lty);
    let mut v: Vec<i64> = Vec::new();
    let mut push = |v: &mut Vec<i64>, x: Option<i64>| {
        if let Some(x) = x {
            let ok = x >= lo && x <= hi && (lty != "Char" || char::from_u32(x as u32).is_some());
            if ok && !v.contains(&x) {
                v.push(x);
            }
        }
    };
    let mut sorted = lits.to_vec();
    sorted.sort();
    sorted.dedup();
    for &l in &sorted {
        push(&mut v, Some(l));
    }
    if let (Some(&a), Some(&b)) = (sorted.first(), sorted.last()) {
        for x in [a.checked_sub(1), a.checked_add(1), b.checked_sub(1), b.checked_add(1)] {
            push(&mut v, x);
        }
    }
    for x in [lo, hi, 0, -1, lo.saturating_add(1), hi - 1] {
        push(&mut v, Some(x));
    }
    // congruent values: around the first, the last and a middle literal
    let mut anchors: Vec<i64> = Vec::new();
    if !sorted.is_empty() {
        for k in [0, sorted.len() - 1, sorted.len() / 2, 1.min(sorted.len() - 1)] {
            if !anchors.contains(&sorted[k]) {
                anchors.push(sorted[k]);
            }
        }
    }
    for times in [1i64, 2, 3] {
        for sh in [32u32, 31, 16, 8] {
            for &a in &anchors {
                let d = (1i64 << sh).checked_mul(times);
                push(&mut v, d.and_then(|d| a.checked_sub(d)));
                push(&mut v, d.and_then(|d| a.checked_add(d)));
            }
        }
    }
    v.truncate(cap);
    v.into_iter().map(LVal::I).collect()
}

fn pat_lits(p: &Pat, out: &mut Vec<i64>) {
    match p {
        Pat::Int(i) | Pat::IntS(i, _) | Pat::Const(i) => out.push(*i),
        Pat::Char(c) => out.push(*c as i64),
        Pat::Alt(ps) => ps.iter().for_each(|q| pat_lits(q, out)),
        _ => {}
    }
}

fn pat_strs(p: &Pat, out: &mut Vec<String>) {
    match p {
        Pat::Str(s) => out.push(s.clone()),
        Pat::Alt(ps) => ps.iter().for_each(|q| pat_strs(q, out)),
        _ => {}
    }
}

fn lit_req(lty: &'static str, arms: Vec<(bool, Pat)>) -> Req {
    let ty = match lty {
        "Char" => Ty::Char,
        "Str" => Ty::Str,
        _ => Ty::Int,
    };
    let values = if lty == "Str" {
        let mut ws = Vec::new();
        arms.iter().for_each(|a| pat_strs(&a.1, &mut ws));
        let mut v: Vec<String> = Vec::new();
        for w in &ws {
            let mut c = vec![w.clone(), format!("{}x", w), format!("x{}", w)];
            if !w.is_empty() {
                c.push(w[..w.len() - 1].to_string());
                c.push(w.to_ascii_uppercase().to_ascii_lowercase().chars().rev().collect());
            }
            for x in c {
                if !v.contains(&x) {
                    v.push(x);
                }
            }
        }
        for x in ["", "zz"] {
            if !v.contains(&x.to_string()) {
                v.push(x.to_string());
            }
        }
        v.truncate(40);
        v.into_iter().map(LVal::S).collect()
    } else {
        let mut ls = Vec::new();
        arms.iter().for_each(|a| pat_lits(&a.1, &mut ls));
        selector_values(&ls, lty, 72)
    };
    Req { decls: Vec::new(), ty, arms, lit: Some(LitReq { lty, values }) }
}

/// the literal sets of the systematic part: (name, literals) for a type; dense sets (>= 3 literals, span <= 128) are
/// lowered to a jump table, the others to a binary search
fn lit_sets(lty: &str) -> Vec<(Vec<i64>, bool)> {
    let (lo, hi) = lit_range(lty);
    let mut bases: Vec<i64> = vec![0, 1, 5, 100];
    if lo < 0 {
        bases.extend([-1, -3, -130, lo, lo + 1]);
    }
    if lty == "Int64" {
        bases.extend([5_000_000_000, -5_000_000_000, (1 << 32) - 1, -(1 << 31) - 1, (1 << 31) - 2]);
    }
    if lty == "Int32" {
        bases.extend([65535, -65537, (1 << 31) - 130]);
    }
    let mut sets: Vec<(Vec<i64>, bool)> = Vec::new();
    // `core` sets are part of every run (quick tier included)
    let mut add = |s: Vec<Option<i64>>, core: bool| {
        let s: Option<Vec<i64>> = s.into_iter().collect();
        if let Some(s) = s {
            if s.iter().all(|x| *x >= lo && *x <= hi) && !sets.iter().any(|e| e.0 == s) {
                sets.push((s, core));
            }
        }
    };
    let big = if lty == "Int64" { 5_000_000_000 } else { 100 };
    for &b in &bases {
        // dense, no hole: smallest literal 0 / non-zero / negative / the type's minimum
        add(vec![Some(b), b.checked_add(1), b.checked_add(2)], b == 0 || b == 5 || b == -3 || b == lo);
        // dense with holes
        add(vec![Some(b), b.checked_add(2), b.checked_add(5), b.checked_add(7)], b == big || b == -1);
        add(vec![Some(b), b.checked_add(64), b.checked_add(127)], b == 1); // span exactly 128: still a table
        add(vec![Some(b), b.checked_add(64), b.checked_add(128)], b == 1); // span 129: binary search
        add(vec![Some(b), b.checked_add(1)], false); // two literals: binary search
        add(vec![Some(b), b.checked_add(1000), b.checked_add(100_000), b.checked_add(100_001)], b == -3); // sparse
        add(vec![b.checked_add(2), Some(b), b.checked_add(1)], false); // dense, written out of order
    }
    // ending at the type's maximum
    add(vec![Some(hi - 2), Some(hi - 1), Some(hi)], true);
    add(vec![Some(hi - 127), Some(hi - 3), Some(hi)], false);
    add(vec![Some(hi - 1), Some(hi)], false);
    add(vec![Some(lo), Some(0), Some(hi)], true); // extremes: span does not fit
    add(vec![Some(lo), Some(hi)], false);
    add(vec![Some(hi)], false);
    add(vec![Some(lo)], false);
    if lty == "UInt8" {
        add(vec![Some(0), Some(100), Some(255)], false);
        add((120..136).map(Some).collect(), true);
    }
    sets
}

/// the arm shapes of the systematic part over one literal set
fn lit_shapes(lits: &[i64], mk: &dyn Fn(i64, usize) -> Pat) -> Vec<Vec<(bool, Pat)>> {
    let n = lits.len();
    let l = |k: usize| mk(lits[k % n], k);
    let each = |g: bool| -> Vec<(bool, Pat)> { (0..n).map(|k| (g, l(k))).collect() };
    let wild = (false, Pat::Wild);
    let bind = (false, Pat::Var("y".into()));
    let mut v: Vec<Vec<(bool, Pat)>> = Vec::new();
    // one arm per literal, `_` default / binding default
    let mut a = each(false);
    a.push(wild.clone());
    v.push(a);
    let mut a = each(false);
    a.push(bind.clone());
    v.push(a);
    // all literals in one alternative
    if n >= 2 {
        v.push(vec![(false, Pat::Alt((0..n).map(l).collect())), wild.clone()]);
        // first two as an alternative, the rest single, then a duplicate of the first (unreachable)
        let mut a = vec![(false, Pat::Alt(vec![l(0), l(1)]))];
        a.extend((2..n).map(|k| (false, l(k))));
        a.push((false, l(0)));
        a.push(wild.clone());
        v.push(a);
    }
    // every literal arm guarded, then unguarded again in reverse order, guarded default, default
    if n <= 2 {
        let mut a = each(true);
        a.extend((0..n).rev().map(|k| (false, l(k))));
        a.push((true, Pat::Wild));
        a.push(wild.clone());
        v.push(a);
    }
    // guard on the first literal and on a default in the middle; later arms partly unreachable
    let mut a = vec![(true, l(0)), (false, l(n - 1)), (true, Pat::Wild)];
    a.extend((0..n).map(|k| (false, l(k))));
    a.push((true, Pat::Alt(vec![l(0), Pat::Wild])));
    a.push(wild.clone());
    v.push(a);
    // same literal three times with two guards
    let mut a = vec![(true, l(0)), (true, l(0)), (false, l(0))];
    a.extend((1..n).map(|k| (k == 1, l(k))));
    a.push(bind.clone());
    v.push(a);
    // default first: everything else unreachable
    let mut a = vec![wild.clone()];
    a.extend(each(false));
    v.push(a);
    // guarded default first, then the literals, then the default
    let mut a = vec![(true, Pat::Wild)];
    a.extend(each(false));
    a.push(wild);
    v.push(a);
    v
}

fn all_lit_requests() -> (Vec<Req>, Vec<Req>) {
    let mut core: Vec<Req> = Vec::new();
    let mut ext: Vec<Req> = Vec::new();
    for lty in ["Int64", "Int32", "UInt8"] {
        for (si, (set, core_set)) in lit_sets(lty).iter().enumerate() {
            let plain = |i: i64, _k: usize| Pat::Int(i);
            // spellings: hex / binary / underscores / unsuffixed / a const, by position
            let spelled = |i: i64, k: usize| match k % 6 {
                0 => Pat::IntS(i, 'x'),
                1 => Pat::IntS(i, 'u'),
                2 => Pat::Const(i),
                3 => Pat::IntS(i, 'b'),
                4 => Pat::IntS(i, 'p'),
                _ => Pat::IntS(i, 'd'),
            };
            for (hi, arms) in lit_shapes(set, &plain).into_iter().enumerate() {
                // core = the plain default-arm shape of every set, and two guarded shapes for every third set
                let is_core = *core_set && (hi == 0 || (si % 4 == 0 && (hi == 4 || hi == 5)));
                if is_core { core.push(lit_req(lty, arms)) } else { ext.push(lit_req(lty, arms)) }
            }
            for (hi, arms) in lit_shapes(set, &spelled).into_iter().enumerate() {
                if hi <= 2 {
                    ext.push(lit_req(lty, arms));
                }
            }
        }
    }
    // Char: generic test-and-branch lowering
    let chars: &[&[u32]] = &[
        &['a' as u32, 'b' as u32, 'c' as u32],
        &[0, 10, 39, 92],
        &['a' as u32, 0xE9, 0x20AC, 0x10FFFF],
        &[0xD7FF, 0xE000, 0xFFFF, 0x10000],
        &['z' as u32],
    ];
    for (si, set) in chars.iter().enumerate() {
        let set: Vec<i64> = set.iter().map(|c| *c as i64).collect();
        for (hi, arms) in lit_shapes(&set, &|i, _| Pat::Char(i as u32)).into_iter().enumerate() {
            if hi == 0 && si < 3 { core.push(lit_req("Char", arms)) } else { ext.push(lit_req("Char", arms)) }
        }
    }
    // String
    let strs: &[&[&str]] = &[&["a", "b", "ab"], &["", "x9"], &["abc", "abd", "ab", "abcd"]];
    for (si, set) in strs.iter().enumerate() {
        let idx: Vec<i64> = (0..set.len() as i64).collect();
        for (hi, arms) in lit_shapes(&idx, &|i, _| Pat::Str(set[i as usize].to_string())).into_iter().enumerate() {
            if hi == 0 && si < 2 { core.push(lit_req("Str", arms)) } else { ext.push(lit_req("Str", arms)) }
        }
    }
    (core, ext)
}

/// random literal matches: literal sets around a random base, random arm order, guards, alternatives, duplicates
fn random_lit_request(r: &mut Rng) -> Req {
    let lty: &'static str = *r.pickv(&["Int64", "Int64", "Int32", "Int32", "UInt8", "Char"]);
    let (lo, hi) = lit_range(lty);
    let base = match r.below(6) {
        0 => lo,
        1 => hi - r.below(130) as i64,
        2 => 0,
        3 => r.range(-200, 200),
        4 => (1i64 << *r.pickv(&[8u32, 16, 31, 32, 40])).wrapping_mul(if r.chance(1, 2) { 1 } else { -1 }) + r.range(-3, 3),
        _ => r.range(lo.max(-1_000_000_000_000), hi.min(1_000_000_000_000)),
    };
    let nl = 1 + r.below(7) as usize;
    let spread = *r.pickv(&[1i64, 1, 2, 3, 9, 40, 127, 128, 129, 1000, 70000]);
    let mut lits: Vec<i64> = Vec::new();
    for _ in 0..nl {
        let x = base.saturating_add(r.range(0, spread.max(nl as i64)));
        let ok = x >= lo && x <= hi && (lty != "Char" || char_src(x as u32).is_some());
        if ok {
            lits.push(x);
        }
    }
    if lits.is_empty() {
        lits.push(if lty == "Char" { 'q' as i64 } else { 0 });
    }
    let mk = |r: &mut Rng, i: i64| -> Pat {
        if lty == "Char" {
            return Pat::Char(i as u32);
        }
        match r.below(10) {
            0 => Pat::IntS(i, 'x'),
            1 => Pat::IntS(i, 'b'),
            2 => Pat::IntS(i, 'u'),
            3 => Pat::Const(i),
            4 if lty != "Int64" => Pat::IntS(i, 'p'),
            _ => Pat::Int(i),
        }
    };
    let narms = 1 + r.below(7) as usize;
    let mut arms: Vec<(bool, Pat)> = Vec::new();
    let mut guarded = 0;
    for _ in 0..narms {
        let p = match r.below(10) {
            0 => Pat::Wild,
            1 | 2 => {
                let k = 2 + r.below(3) as usize;
                Pat::Alt((0..k).map(|_| { let i = *r.pickv(&lits); if r.chance(1, 8) { Pat::Wild } else { mk(r, i) } }).collect())
            }
            _ => { let i = *r.pickv(&lits); mk(r, i) }
        };
        let g = guarded < 3 && r.chance(1, 3);
        if g {
            guarded += 1;
        }
        arms.push((g, p));
    }
    arms.push((false, if r.chance(1, 3) { Pat::Var("y".into()) } else { Pat::Wild }));
    lit_req(lty, arms)
}

/// `genlit n`: the core list, then a seeded selection of the extended systematic list and random matches, n in
/// total (n >= the number of systematic requests: all of them, the rest random)
fn gen_lit(n: usize) {
    let (core, ext) = all_lit_requests();
    let mut r = Rng::from_env();
    let mut out: Vec<String> = Vec::new();
    let mut seen: HashSet<String> = HashSet::new();
    let mut emit = |out: &mut Vec<String>, q: &Req| {
        let s = show_req(q);
        if seen.insert(s.clone()) {
            out.push(s);
        }
    };
    for q in &core {
        emit(&mut out, q);
    }
    let rest = n.saturating_sub(out.len());
    let n_ext = if rest >= ext.len() + ext.len() / 3 { ext.len() } else { rest * 2 / 3 };
    if n_ext >= ext.len() {
        for q in &ext {
            emit(&mut out, q);
        }
    } else if n_ext > 0 {
        // a seeded offset and a stride that is coprime to the length walk through the list without repetition
        let len = ext.len() as u64;
        let mut stride = next_prime(len / n_ext as u64 + 1);
        while len % stride == 0 {
            stride = next_prime(stride + 1);
        }
        let mut idx = r.below(len);
        for _ in 0..n_ext {
            emit(&mut out, &ext[idx as usize]);
            idx = (idx + stride) % len;
        }
    }
    let mut tries = 0;
    while out.len() < n && tries < 10 * n {
        let q = random_lit_request(&mut r);
        emit(&mut out, &q);
        tries += 1;
    }
    for l in out {
        println!("{}", l);
    }
}

fn main() {
    let args: Vec<String> = std::env::args().collect();
    let arg = |i: usize| args.get(i).map(|s| s.as_str());
    match arg(1) {
        Some("gen") => gen(
            arg(2).and_then(|s| s.parse().ok()).unwrap_or(1000),
            arg(3).and_then(|s| s.parse().ok()).unwrap_or(1500),
        ),
        Some("run") => run(arg(2)),
        Some("src") => {
            let mut s = String::new();
            std::io::stdin().read_to_string(&mut s).expect("read stdin");
            match s.lines().map(|l| l.trim()).find(|l| !l.is_empty()).and_then(p_req) {
                Some(req) => print!("{}", render_single(&req).0),
                None => println!("!badreq"),
            }
        }
        Some("prog") if arg(2).is_some() => prog(arg(2).unwrap()),
        Some("genlit") => gen_lit(arg(2).and_then(|s| s.parse().ok()).unwrap_or(60)),
        _ => eprintln!("usage: h_c11 gen <n> [sys] | genlit <n> | run [file] | src | prog <file>"),
    }
}
