//! C14 harness: drives the real bytecode-level position lookup and its producer (dora-bytecode).
//!   h_c14 gen <n>          write a request file to stdout (seeded by VERIF_SEED)
//!   h_c14 run [file]       answer requests (one per line) with the real implementation
//! requests:
//!   bctab <off:line:col;…|->                  a position table (strictly increasing offsets)
//!       -> `<line>.<col> …` : `BytecodeBody::offset_location(q)` for every q from 0 to last offset + 2
//!   bcwr <op>,<op>,…   op = name:a:b:c:needs:size:<line.col|->
//!       the instruction sequence is emitted through the real `BytecodeWriter` (`set_location` first when a location is
//!       given; forward jumps are bound at the end) ->
//!       `len=<code length> tab=<off:line:col;…|-> at=<offset>=<line>.<col>;…` (offset_location at every instruction's offset;
//!       offsets are the running sums of the sizes named in the request, and `len` shows whether those sizes are the real ones)
//! a panic inside the real code becomes `!panic …`
use dora_bytecode::{
    BytecodeBody, BytecodeOffset, BytecodeWriter, ConstPoolIdx, GlobalId, Label, Location, Register,
};
use hutil::Rng;

const OPS3: &[&str] = &["add", "and", "cadd", "csub", "cmul", "cdiv", "cmod", "shl", "shr", "sar", "ldarr", "starr"];
const OPS2: &[&str] = &["mov", "not", "cneg", "arrlen"];
const OPSG: &[&str] = &["ldglob", "stglob", "globref"];
const OPSF: &[&str] = &["ldfield", "stfield", "fieldref"];
const OPSJ: &[&str] = &["jmp", "jif"];

#[derive(Clone)]
struct Op {
    name: String,
    a: u32,
    b: u32,
    c: u32,
    needs: bool,
    size: u32,
    loc: Option<(u32, u32)>,
}

fn emit(w: &mut BytecodeWriter, op: &Op, labels: &mut Vec<Label>) {
    if let Some((l, c)) = op.loc {
        w.set_location(Location::new(l, c));
    }
    let (a, b, c) = (Register(op.a as usize), Register(op.b as usize), Register(op.c as usize));
    match op.name.as_str() {
        "add" => w.emit_add(a, b, c),
        "and" => w.emit_and(a, b, c),
        "cadd" => w.emit_checked_add(a, b, c),
        "csub" => w.emit_checked_sub(a, b, c),
        "cmul" => w.emit_checked_mul(a, b, c),
        "cdiv" => w.emit_checked_div(a, b, c),
        "cmod" => w.emit_checked_mod(a, b, c),
        "shl" => w.emit_shl(a, b, c),
        "shr" => w.emit_shr(a, b, c),
        "sar" => w.emit_sar(a, b, c),
        "ldarr" => w.emit_load_array(a, b, c),
        "starr" => w.emit_store_array(a, b, c),
        "mov" => w.emit_mov(a, b),
        "not" => w.emit_not(a, b),
        "cneg" => w.emit_checked_neg(a, b),
        "arrlen" => w.emit_array_length(a, b),
        "ldglob" => w.emit_load_global(a, GlobalId::from(op.b as usize)),
        "stglob" => w.emit_store_global(a, GlobalId::from(op.b as usize)),
        "globref" => w.emit_get_global_ref(a, GlobalId::from(op.b as usize)),
        "ldfield" => w.emit_load_field(a, b, ConstPoolIdx(op.c)),
        "stfield" => w.emit_store_field(a, b, ConstPoolIdx(op.c)),
        "fieldref" => w.emit_get_field_ref(a, b, ConstPoolIdx(op.c)),
        "jmp" => {
            let l = w.create_label();
            w.emit_jump(l);
            labels.push(l);
        }
        "jif" => {
            let l = w.create_label();
            w.emit_jump_if_false(a, l);
            labels.push(l);
        }
        "ret" => w.emit_ret(a),
        other => panic!("badreq op {}", other),
    }
}

fn build(ops: &[Op]) -> BytecodeBody {
    let mut w = BytecodeWriter::new();
    let mut labels = Vec::new();
    for op in ops {
        emit(&mut w, op, &mut labels);
    }
    w.emit_ret(Register(0));          // something to jump to
    for l in labels {
        w.bind_label(l);
    }
    w.emit_ret(Register(0));
    w.generate()
}

fn parse_ops(s: &str) -> Vec<Op> {
    s.split(',')
        .map(|o| {
            let p: Vec<&str> = o.split(':').collect();
            let loc = if p[6] == "-" {
                None
            } else {
                let (l, c) = p[6].split_once('.').unwrap();
                Some((l.parse().unwrap(), c.parse().unwrap()))
            };
            Op { name: p[0].to_string(), a: p[1].parse().unwrap(), b: p[2].parse().unwrap(), c: p[3].parse().unwrap(),
                 needs: p[4] == "1", size: p[5].parse().unwrap(), loc }
        })
        .collect()
}

fn fmt_ops(ops: &[Op]) -> String {
    ops.iter()
        .map(|o| {
            format!("{}:{}:{}:{}:{}:{}:{}", o.name, o.a, o.b, o.c, if o.needs { 1 } else { 0 }, o.size,
                    match o.loc { Some((l, c)) => format!("{}.{}", l, c), None => "-".to_string() })
        })
        .collect::<Vec<_>>()
        .join(",")
}

fn fmt_table(t: &[(BytecodeOffset, Location)]) -> String {
    if t.is_empty() {
        return "-".to_string();
    }
    t.iter().map(|(o, l)| format!("{}:{}:{}", o.to_u32(), l.line(), l.column())).collect::<Vec<_>>().join(";")
}

fn parse_table(s: &str) -> Vec<(BytecodeOffset, Location)> {
    if s == "-" {
        return Vec::new();
    }
    s.split(';')
        .map(|e| {
            let p: Vec<u32> = e.split(':').map(|x| x.parse().unwrap()).collect();
            (BytecodeOffset(p[0]), Location::new(p[1], p[2]))
        })
        .collect()
}

fn respond(line: &str) -> String {
    let p: Vec<&str> = line.split(' ').collect();
    match p[0] {
        "bctab" => {
            let t = parse_table(p[1]);
            let last = t.last().map(|(o, _)| o.to_u32()).unwrap_or(0);
            let body = BytecodeBody::new(Vec::new(), Vec::new(), Vec::new(), t);
            (0..=last + 2)
                .map(|q| {
                    let l = body.offset_location(q);
                    format!("{}.{}", l.line(), l.column())
                })
                .collect::<Vec<_>>()
                .join(" ")
        }
        "bcwr" => {
            let ops = parse_ops(p[1]);
            let body = build(&ops);
            // the two trailing `ret r0` (2 bytes each) are the harness's own
            let len = body.code().len() as u32 - 4;
            let mut at = Vec::new();
            let mut off = 0u32;
            for op in &ops {
                let l = body.offset_location(off);
                at.push(format!("{}={}.{}", off, l.line(), l.column()));
                off += op.size;
            }
            let tab: Vec<(BytecodeOffset, Location)> = body.locations().iter().cloned().collect();
            format!("len={} tab={} at={}", len, fmt_table(&tab), at.join(";"))
        }
        _ => "!badreq".to_string(),
    }
}

fn code_len(ops: &[Op]) -> u32 {
    build(ops).code().len() as u32
}

fn rand_reg(r: &mut Rng) -> u32 {
    match r.below(10) {
        0 => 128 + r.below(300) as u32,     // two-byte operands
        1 => 16384 + r.below(100) as u32,   // three-byte operands
        _ => r.below(128) as u32,
    }
}

fn needs_location(name: &str) -> bool {
    // what `BytecodeOpcode::needs_location` says (checked by the run: a wrong flag shows as a disagreement in `tab`)
    matches!(name, "cadd" | "csub" | "cmul" | "cdiv" | "cmod" | "cneg" | "shl" | "shr" | "sar" | "ldarr" | "starr" | "arrlen"
        | "ldglob" | "globref" | "fieldref")
}

fn gen_ops(r: &mut Rng, n: usize, with_bad: bool) -> Vec<Op> {
    let mut ops: Vec<Op> = Vec::new();
    let mut line = 1 + r.below(40) as u32;
    let mut col = 1 + r.below(30) as u32;
    for _ in 0..n {
        // a new "statement" / sub-expression every few instructions; sometimes back to an earlier line (loops)
        match r.below(6) {
            0 | 1 => { line += 1 + r.below(3) as u32; col = 1 + r.below(30) as u32; }
            2 => { col += 1 + r.below(9) as u32; }
            3 if r.chance(1, 4) && line > 3 => { line -= 1 + r.below(2) as u32; }
            _ => {}
        }
        let name = match r.below(10) {
            0..=4 => r.pick(OPS3),
            5 | 6 => r.pick(OPS2),
            7 => r.pick(OPSG),
            8 => r.pick(OPSF),
            _ => r.pick(OPSJ),
        };
        let needs = needs_location(name);
        let is_jump = name == "jmp" || name == "jif";
        let takes_loc = needs || name == "ldfield" || name == "stfield" || name == "stglob";
        let mut loc = if takes_loc && !is_jump { Some((line, col)) } else { None };
        if with_bad && needs && r.chance(1, 12) {
            loc = None;          // the writer's assertion must fail, on both sides
        }
        let mut op = Op { name: name.to_string(), a: rand_reg(r), b: rand_reg(r), c: rand_reg(r), needs, size: 0, loc };
        // size = what the real writer appends for this instruction
        let mut probe = op.clone();
        probe.loc = Some((1, 1));
        op.size = code_len(&[probe]) - 4;
        ops.push(op);
    }
    ops
}

fn gen(n: usize) {
    let mut r = Rng::from_env();
    // tables: fixed shapes first
    for t in ["-", "0:1:1", "5:3:4", "0:9:5;7:10:5;20:11:5", "2:9:5;3:10:5;4:11:5;5:12:1", "4294967290:7:7"] {
        if t.starts_with("4294967290") {
            continue;      // `last + 2` queries would be too many; large offsets come below with a small span
        }
        println!("bctab {}", t);
    }
    for i in 0..n {
        let k = match i % 5 { 0 => 1, 1 => 2, 2 => 3 + r.below(5), 3 => 8 + r.below(12), _ => 20 + r.below(30) } as usize;
        let mut off = if r.chance(1, 3) { 0 } else { r.below(9) as u32 };
        let mut es = Vec::new();
        for _ in 0..k {
            es.push(format!("{}:{}:{}", off, 1 + r.below(60), 1 + r.below(40)));
            off += match r.below(4) { 0 => 1, 1 => 2, _ => 2 + r.below(9) as u32 };   // gaps and adjacent entries
        }
        println!("bctab {}", es.join(";"));
    }
    for i in 0..n {
        let k = match i % 4 { 0 => 1 + r.below(4), 1 => 4 + r.below(8), _ => 10 + r.below(30) } as usize;
        let ops = gen_ops(&mut r, k, i % 7 == 6);
        println!("bcwr {}", fmt_ops(&ops));
    }
}

fn main() {
    let args: Vec<String> = std::env::args().collect();
    match args.get(1).map(|s| s.as_str()) {
        Some("gen") => gen(args.get(2).and_then(|s| s.parse().ok()).unwrap_or(100)),
        Some("run") => hutil::serve(args.get(2).map(|s| s.as_str()), &mut |l| respond(l)),
        _ => {
            eprintln!("usage: h_c14 gen <n> | run [file]");
            std::process::exit(2);
        }
    }
}
