//! C19 harness: drives the real dora-symbol functions.
//!   h_c19 gen <n>          write a request file to stdout (seeded by VERIF_SEED)
//!   h_c19 run [file]       answer requests (one per line) with the real implementation
//! requests:  mangle <hex> | capped <hex> <max> | demangle <hex>
//! responses: hex of the result bytes | none | !panic ...
use hutil::{hex, unhex, Rng};

fn respond(line: &str) -> String {
    let p: Vec<&str> = line.split(' ').collect();
    match p[0] {
        "mangle" => {
            let b = unhex(p[1]);
            match String::from_utf8(b) {
                Ok(s) => hex(dora_symbol::mangle_name(&s).as_bytes()),
                Err(_) => "!notutf8".to_string(),
            }
        }
        "capped" => {
            let b = unhex(p[1]);
            let m: usize = p[2].parse().unwrap();
            match String::from_utf8(b) {
                Ok(s) => hex(dora_symbol::mangle_name_with_max_len(&s, m).as_bytes()),
                Err(_) => "!notutf8".to_string(),
            }
        }
        "demangle" => {
            let b = unhex(p[1]);
            match String::from_utf8(b) {
                Ok(s) => match dora_symbol::demangle_name(&s) {
                    Some(r) => hex(r.as_bytes()),
                    None => "none".to_string(),
                },
                Err(_) => "!notutf8".to_string(),
            }
        }
        _ => "!badreq".to_string(),
    }
}

fn rand_name(r: &mut Rng, len: usize) -> String {
    const SEPS: &[&str] = &["::", "[", "]", "(", ")", ", ", ": ", "<", ">", "#", " for ", " as ", "impl", "_", "$", "☃", "é", "世", "😀", "-", ".", "\u{0}", "\n"];
    const WORDS: &[&str] = &["std", "boots", "main", "Fn16", "Int64", "Option", "call", "String", "Vec", "x", "A", "z9", "traits", "Add", "add"];
    let mut s = String::new();
    while s.len() < len {
        if r.chance(1, 3) {
            s.push_str(r.pick(SEPS));
        } else if r.chance(1, 8) {
            s.push(char::from_u32(r.below(0x250) as u32).unwrap_or('?'));
        } else {
            s.push_str(r.pick(WORDS));
        }
    }
    s
}

fn gen(n: usize) {
    let mut r = Rng::from_env();
    let fixed = ["", "main", "boots::interface::compile", "std::fatal_error[()]", "unicode::snowman::☃", "_", "__", "a_b", "dora_", "H", "_H"];
    for f in fixed {
        println!("mangle {}", hex(f.as_bytes()));
        println!("capped {} 200", hex(f.as_bytes()));
        println!("demangle {}", hex(dora_symbol::mangle_name(f).as_bytes()));
    }
    // every single byte value that is valid as a one-char string, and as 2-byte sequences
    for c in 0u32..0x300 {
        if let Some(ch) = char::from_u32(c) {
            let s = ch.to_string();
            println!("mangle {}", hex(s.as_bytes()));
        }
    }
    for i in 0..n {
        let len = match i % 4 {
            0 => r.below(20) as usize,
            1 => 20 + r.below(60) as usize,
            2 => 40 + r.below(80) as usize, // mangled length crosses 200
            _ => 150 + r.below(110) as usize,
        };
        let name = rand_name(&mut r, len);
        println!("mangle {}", hex(name.as_bytes()));
        let max = match r.below(6) {
            0 => 34,
            1 => 35 + r.below(10) as usize,
            2 => 33 - r.below(34) as usize, // below the minimum: must be refused
            3 => dora_symbol::mangle_name(&name).len() + 1 - r.below(3) as usize, // around the cap
            _ => 200,
        };
        println!("capped {} {}", hex(name.as_bytes()), max);
        // pairs with a long common prefix differing late
        if i % 5 == 0 {
            let mut other = name.clone();
            other.push_str(if r.chance(1, 2) { "other" } else { "]" });
            println!("capped {} 200", hex(other.as_bytes()));
        }
        // demangle: valid symbols, damaged symbols, arbitrary text
        let m = dora_symbol::mangle_name(&name);
        let mut mb = m.clone().into_bytes();
        match r.below(5) {
            0 => {}
            1 => {
                if !mb.is_empty() {
                    let k = r.below(mb.len() as u64) as usize;
                    mb[k] = *r.pickv(&[b'_', b'g', b'G', b'f', b'F', b'0', b'9', b'a', b'.', b'H']);
                }
            }
            2 => {
                let k = r.below(mb.len() as u64 + 1) as usize;
                mb.truncate(k);
            }
            3 => {
                let k = r.below(mb.len() as u64 + 1) as usize;
                mb.insert(k, b'_');
            }
            _ => {
                mb = rand_name(&mut r, 10).into_bytes();
            }
        }
        if std::str::from_utf8(&mb).is_ok() {
            println!("demangle {}", hex(&mb));
        }
    }
}

fn main() {
    let args: Vec<String> = std::env::args().collect();
    match args.get(1).map(|s| s.as_str()) {
        Some("gen") => gen(args.get(2).and_then(|s| s.parse().ok()).unwrap_or(1000)),
        Some("run") => hutil::serve(args.get(2).map(|s| s.as_str()), &mut |l| respond(l)),
        _ => eprintln!("usage: h_c19 gen <n> | run [file]"),
    }
}
