//! The real `Terminator` of dora-runtime, compiled byte-for-byte from /repo against the sync shim.
//! No hook in /repo and no textual rewrite: the file's two `use` lines resolve to the shim because
//! (1) the dependency named `parking_lot` IS the shim (see Cargo.toml) and (2) this crate has no `std`
//! of its own and names the shim `std`, so `std::sync::atomic::{AtomicUsize, Ordering}` is the shim's.
//! If terminator.rs starts to use anything else from `std`, this crate stops compiling and the check
//! reports `corr:build` (the tie is broken loudly, never silently).
#![no_std]
#![allow(unused_extern_crates)]
extern crate parking_lot as std;

/// Should /repo ever get the cfg hook described in DESIGN §6 (`use crate::verif_sync::{…}` under
/// `cfg(dinfuehr_dora_verif)`), this is what it resolves to here.
pub mod verif_sync {
    pub use parking_lot::{AtomicUsize, Condvar, Mutex, Ordering};
}

#[path = "/repo/dora-runtime/src/gc/swiper/terminator.rs"]
pub mod terminator;
