//! C12 harness: the REAL `Terminator` (terminator.rs of /repo, compiled unmodified in `c12_realterm`)
//! driven by worker loops shaped like `MarkingTask::run` / `CopyTask::trace_gray_objects`, against an
//! abstract work pool, under the deterministic scheduler of `verif_sync_shim`.
//!
//!   h_c12 run <quick|thorough> <outdir> [corpus-file]
//!        explores schedules (corpus first, then DFS with a preemption bound per scenario, then seeded
//!        random ones); writes, line-aligned, one line per DISTINCT trace:
//!          <outdir>/traces.req     request for the Lean driver drv_c12 (the linearised event trace)
//!          <outdir>/expected.resp  what drv_c12 must answer (computed from the real objects' final values)
//!          <outdir>/sched.txt      `<scenario> <spurious budget> <choice list>`  = the replay of that trace
//!        and <outdir>/violations.jsonl (oracle failures on the real code); prints a JSON summary.
//!   h_c12 replay <scenario> <spurious budget> <choice list|->
//!        runs exactly one schedule; prints request line, expected response, status, oracle verdicts.
//!
//! scenario syntax:  n/shared0/own0,own1,…/script0/script1/…   script = actions separated by `.` or `-`
//!   the j-th item a worker processes triggers its j-th action:  n = nothing, l<k> = push k to the local
//!   segment (own pool, no wake_up), o<k> = push k to the deque (own pool) then `wake_up`, s<k> = push k
//!   to the injector (shared pool) then `wake_up`, m<k> = move up to k items own→shared then `wake_up`.
//! Every random choice derives from VERIF_SEED.
use c12_realterm::terminator::Terminator;
use hutil::Rng;
use std::collections::{BTreeMap, HashSet};
use std::io::Write;
use std::sync::atomic::{AtomicBool, AtomicU8, AtomicUsize as StdAtomicUsize, Ordering as O};
use std::sync::{Arc, Mutex as StdMutex};
use verif_sync_shim as shim;
use verif_sync_shim::explore::{Dfs, Pct, Replay, Uniform};
use verif_sync_shim::{Chooser, Config, Event, Obj, RunResult, Status};

#[derive(Clone, Debug, PartialEq)]
enum Action {
    Nop,
    PushLocal(usize),
    PushOwn(usize),
    PushShared(usize),
    Move(usize),
}

#[derive(Clone, Debug)]
struct Scenario {
    n: usize,
    shared0: usize,
    own0: Vec<usize>,
    scripts: Vec<Vec<Action>>,
}

impl Scenario {
    fn parse(s: &str) -> Result<Scenario, String> {
        let p: Vec<&str> = s.split('/').collect();
        if p.len() < 3 {
            return Err("scenario: n/shared/own[/script…]".into());
        }
        let n: usize = p[0].parse().map_err(|_| "n")?;
        let shared0: usize = p[1].parse().map_err(|_| "shared")?;
        let own0: Vec<usize> = p[2].split(',').map(|x| x.parse().map_err(|_| "own")).collect::<Result<_, _>>()?;
        if own0.len() != n || n == 0 {
            return Err("own list length != n".into());
        }
        let mut scripts = Vec::new();
        for t in 0..n {
            let mut sc = Vec::new();
            if let Some(txt) = p.get(3 + t) {
                for a in txt.split('.') {
                    if a.is_empty() || a == "-" {
                        continue;
                    }
                    let k: usize = if a.len() > 1 { a[1..].parse().map_err(|_| "action count")? } else { 0 };
                    sc.push(match &a[..1] {
                        "n" => Action::Nop,
                        "l" => Action::PushLocal(k),
                        "o" => Action::PushOwn(k),
                        "s" => Action::PushShared(k),
                        "m" => Action::Move(k),
                        _ => return Err(format!("action {}", a)),
                    });
                }
            }
            scripts.push(sc);
        }
        Ok(Scenario { n, shared0, own0, scripts })
    }

    fn show(&self) -> String {
        let mut s = format!(
            "{}/{}/{}",
            self.n,
            self.shared0,
            self.own0.iter().map(|x| x.to_string()).collect::<Vec<_>>().join(",")
        );
        for sc in &self.scripts {
            s.push('/');
            if sc.is_empty() {
                s.push('-');
            }
            s.push_str(
                &sc.iter()
                    .map(|a| match a {
                        Action::Nop => "n".to_string(),
                        Action::PushLocal(k) => format!("l{}", k),
                        Action::PushOwn(k) => format!("o{}", k),
                        Action::PushShared(k) => format!("s{}", k),
                        Action::Move(k) => format!("m{}", k),
                    })
                    .collect::<Vec<_>>()
                    .join("."),
            );
        }
        s
    }
}

/// The abstract pool: counters behind the shim, so every access is a scheduling point and an event.
struct Pool {
    shared: shim::AtomicUsize,
    own: Vec<shim::AtomicUsize>,
}

impl Pool {
    fn take(a: &shim::AtomicUsize) -> bool {
        a.fetch_update(shim::Ordering::SeqCst, shim::Ordering::SeqCst, |v| if v > 0 { Some(v - 1) } else { None }).is_ok()
    }
}

const WORKING: u8 = 0;
const IN_TERMINATE: u8 = 1;
const DONE: u8 = 2;

/// Oracle state: plain std atomics, invisible to the scheduler.
struct Oracle {
    status: Vec<AtomicU8>,
    ended: AtomicBool,
    processed: StdAtomicUsize,
    created: StdAtomicUsize,
    trues: StdAtomicUsize,
    violations: StdMutex<Vec<(String, String)>>,
}

impl Oracle {
    fn violation(&self, key: &str, text: String) {
        self.violations.lock().unwrap().push((key.to_string(), text));
    }
    fn on_work(&self, t: usize, what: &str) {
        if self.ended.load(O::SeqCst) {
            self.violation("oracle:work-after-end", format!("worker {} did `{}` after a worker had been told that everything is finished", t, what));
        }
    }
    fn on_true(&self, t: usize, pool: &Pool) {
        let s = pool.shared.peek();
        let own: Vec<usize> = pool.own.iter().map(|a| a.peek()).collect();
        if s != 0 || own.iter().any(|&x| x != 0) {
            self.violation(
                "oracle:early-termination",
                format!("try_terminate returned true for worker {} while the pool is not empty (shared={}, own={:?})", t, s, own),
            );
        }
        for (u, st) in self.status.iter().enumerate() {
            if u != t && st.load(O::SeqCst) == WORKING {
                self.violation(
                    "oracle:early-termination",
                    format!("try_terminate returned true for worker {} while worker {} is still working (may publish work)", t, u),
                );
            }
        }
        self.ended.store(true, O::SeqCst);
        self.status[t].store(DONE, O::SeqCst);
        self.trues.fetch_add(1, O::SeqCst);
    }
    fn on_false(&self, t: usize) {
        if self.ended.load(O::SeqCst) {
            self.violation("oracle:false-after-end", format!("try_terminate returned false for worker {} after it had returned true for another", t));
        }
        self.status[t].store(WORKING, O::SeqCst);
    }
}

const OBJ_T: Obj = Obj::User(0);
const OBJ_U: Obj = Obj::User(1);

/// Worker loop, shaped like `MarkingTask::run`: pop (own → injector → steal) / process / try_terminate.
fn worker(t: usize, sc: Arc<Scenario>, pool: Arc<Pool>, term: Arc<Terminator>, orc: Arc<Oracle>) {
    let n = sc.n;
    let mut pos = 0usize;
    loop {
        let mut got = Pool::take(&pool.own[t]) || Pool::take(&pool.shared);
        if !got && n > 1 {
            for d in 1..n {
                if Pool::take(&pool.own[(t + d) % n]) {
                    got = true;
                    break;
                }
            }
        }
        if got {
            orc.on_work(t, "take");
            orc.processed.fetch_add(1, O::SeqCst);
            let act = sc.scripts[t].get(pos).cloned().unwrap_or(Action::Nop);
            pos += 1;
            match act {
                Action::Nop => {}
                Action::PushLocal(k) => {
                    orc.created.fetch_add(k, O::SeqCst);
                    pool.own[t].fetch_add(k, shim::Ordering::SeqCst);
                }
                Action::PushOwn(k) => {
                    orc.created.fetch_add(k, O::SeqCst);
                    pool.own[t].fetch_add(k, shim::Ordering::SeqCst);
                    term.wake_up();
                    shim::mark("ret", OBJ_U, Some(0), None);
                }
                Action::PushShared(k) => {
                    orc.created.fetch_add(k, O::SeqCst);
                    pool.shared.fetch_add(k, shim::Ordering::SeqCst);
                    term.wake_up();
                    shim::mark("ret", OBJ_U, Some(0), None);
                }
                Action::Move(k) => {
                    let mut moved = 0;
                    while moved < k && Pool::take(&pool.own[t]) {
                        moved += 1;
                    }
                    if moved > 0 {
                        pool.shared.fetch_add(moved, shim::Ordering::SeqCst);
                    }
                    term.wake_up();
                    shim::mark("ret", OBJ_U, Some(0), None);
                }
            }
            continue;
        }
        orc.status[t].store(IN_TERMINATE, O::SeqCst);
        let r = term.try_terminate();
        shim::mark("ret", OBJ_T, Some(r as u64), None);
        if r {
            orc.on_true(t, &pool);
            break;
        } else {
            orc.on_false(t);
        }
    }
}

struct Outcome {
    res: RunResult,
    request: String,
    expected: String,
    violations: Vec<(String, String)>,
    feats: Feats,
}

#[derive(Default, Clone)]
struct Feats {
    waits: usize,
    n1_woken: usize,
    n1_none: usize,
    slow_wakeups: usize,
    false_returns: usize,
    spurious: usize,
    steals: usize,
    events: usize,
}

fn run_one(sc: &Arc<Scenario>, spur: usize, chooser: Box<dyn Chooser>) -> Outcome {
    let cfg = Config { max_steps: 5000, spurious_budget: spur };
    let n = sc.n;
    let orc = Arc::new(Oracle {
        status: (0..n).map(|_| AtomicU8::new(WORKING)).collect(),
        ended: AtomicBool::new(false),
        processed: StdAtomicUsize::new(0),
        created: StdAtomicUsize::new(sc.shared0 + sc.own0.iter().sum::<usize>()),
        trues: StdAtomicUsize::new(0),
        violations: StdMutex::new(Vec::new()),
    });
    let ids: Arc<StdMutex<Vec<u32>>> = Arc::new(StdMutex::new(Vec::new()));
    let (sc2, orc2, ids2) = (sc.clone(), orc.clone(), ids.clone());
    let res = shim::run(&cfg, chooser, move || {
        let pool = Arc::new(Pool {
            shared: shim::AtomicUsize::new(sc2.shared0),
            own: sc2.own0.iter().map(|&k| shim::AtomicUsize::new(k)).collect(),
        });
        let mut v = vec![pool.shared.id()];
        v.extend(pool.own.iter().map(|a| a.id()));
        *ids2.lock().unwrap() = v;
        let term = Arc::new(Terminator::new(sc2.n));
        let mut hs = Vec::new();
        for t in 0..sc2.n {
            let (sc3, p, tm, o) = (sc2.clone(), pool.clone(), term.clone(), orc2.clone());
            hs.push(shim::spawn(move || worker(t, sc3, p, tm, o)));
        }
        for h in hs {
            let _ = h.join();
        }
    });
    // object roles: pool first (construction order), then Terminator::new's working, awakening, lock, condvar
    let ids = ids.lock().unwrap().clone();
    let id_s = ids[0];
    let id_w = ids.iter().max().unwrap() + 1;
    let id_a = id_w + 1;
    let role = |o: Obj| -> String {
        match o {
            Obj::Atomic(i) if i == id_s => "S".to_string(),
            Obj::Atomic(i) if i == id_w => "W".to_string(),
            Obj::Atomic(i) if i == id_a => "A".to_string(),
            Obj::Atomic(i) => match ids[1..].iter().position(|&x| x == i) {
                Some(u) => format!("O{}", u),
                None => format!("?a{}", i),
            },
            Obj::Mutex(0) => "L".to_string(),
            Obj::Condvar(0) => "C".to_string(),
            Obj::User(0) => "T".to_string(),
            Obj::User(1) => "U".to_string(),
            other => format!("?{}", other),
        }
    };
    let mut feats = Feats::default();
    let mut toks: Vec<String> = Vec::new();
    let mut steps = 0usize;
    let num = |x: Option<u64>| x.map(|v| v.to_string()).unwrap_or_else(|| "-".to_string());
    for e in &res.events {
        let Event { tid, op, obj, rd, wr } = e;
        if *tid == 0 || matches!(*op, "start" | "exit" | "spawn" | "join") {
            continue;
        }
        let w = tid - 1;
        let mut rds = num(*rd);
        if *op == "n1" {
            rds = rd.map(|v| (v - 1).to_string()).unwrap_or_else(|| "-".to_string());
            if rd.is_some() {
                feats.n1_woken += 1
            } else {
                feats.n1_none += 1
            }
            feats.slow_wakeups += 1;
        }
        match *op {
            "wait" => feats.waits += 1,
            "spur" => feats.spurious += 1,
            "ret" if *obj == OBJ_T && *rd == Some(0) => feats.false_returns += 1,
            "fupd" if wr.is_some() && role(*obj).starts_with('O') && role(*obj) != format!("O{}", w) => feats.steals += 1,
            _ => {}
        }
        if *op != "ret" {
            steps += 1;
        }
        toks.push(format!("{},{},{},{},{}", w, op, role(*obj), rds, num(*wr)));
    }
    feats.events = steps;
    let request = format!(
        "{} {} {} | {}",
        n,
        sc.shared0,
        sc.own0.iter().map(|x| x.to_string()).collect::<Vec<_>>().join(","),
        toks.join(" ")
    );
    let at = |i: u32| res.atomics.get(i as usize).copied().unwrap_or(u64::MAX);
    let own_sum: u64 = ids[1..].iter().map(|&i| at(i)).sum();
    let expected = format!(
        "accept {} done={} W={} A={} S={} O={}",
        steps,
        orc.trues.load(O::SeqCst),
        at(id_w),
        at(id_a),
        at(id_s),
        own_sum
    );
    let mut violations = orc.violations.lock().unwrap().clone();
    match &res.status {
        Status::Completed => {
            if orc.trues.load(O::SeqCst) != n {
                violations.push(("oracle:not-all-true".into(), "run completed but not every worker got `true`".into()));
            }
            if orc.processed.load(O::SeqCst) != orc.created.load(O::SeqCst) {
                violations.push((
                    "oracle:items".into(),
                    format!("items processed {} != items created {}", orc.processed.load(O::SeqCst), orc.created.load(O::SeqCst)),
                ));
            }
        }
        Status::Deadlock(who) => violations.push(("oracle:deadlock".into(), format!("deadlock: no runnable thread, unfinished: {:?}", who))),
        Status::Panic { tid, msg } => {
            let key = if msg.contains("working > 0") {
                "oracle:assert-working-positive"
            } else if msg.contains("working + awakening") {
                "oracle:assert-sum-le-total"
            } else {
                "oracle:panic"
            };
            violations.push((key.into(), format!("thread {} panicked: {}", tid, msg.lines().next().unwrap_or(""))))
        }
        Status::StepLimit => violations.push(("oracle:step-limit".into(), "run exceeded the step limit (spinning?)".into())),
    }
    Outcome { res, request, expected, violations, feats }
}

fn jstr(s: &str) -> String {
    let mut o = String::from("\"");
    for c in s.chars() {
        match c {
            '"' => o.push_str("\\\""),
            '\\' => o.push_str("\\\\"),
            '\n' => o.push_str("\\n"),
            c if (c as u32) < 0x20 => o.push_str(&format!("\\u{:04x}", c as u32)),
            c => o.push(c),
        }
    }
    o.push('"');
    o
}

fn choices_str(c: &[usize]) -> String {
    if c.is_empty() {
        "-".to_string()
    } else {
        c.iter().map(|x| x.to_string()).collect::<Vec<_>>().join(",")
    }
}

fn parse_choices(s: &str) -> Vec<usize> {
    if s == "-" {
        Vec::new()
    } else {
        s.split(',').filter_map(|x| x.parse().ok()).collect()
    }
}

struct Sink {
    req: std::io::BufWriter<std::fs::File>,
    exp: std::io::BufWriter<std::fs::File>,
    sch: std::io::BufWriter<std::fs::File>,
    vio: std::io::BufWriter<std::fs::File>,
    seen: HashSet<u64>,
    schedules: usize,
    distinct: usize,
    nontrivial: usize,
    violations: usize,
    hist: BTreeMap<String, usize>,
    samples: Vec<String>,
    max_events: usize,
}

fn fnv(s: &str) -> u64 {
    let mut h: u64 = 0xcbf29ce484222325;
    for b in s.bytes() {
        h ^= b as u64;
        h = h.wrapping_mul(0x100000001b3);
    }
    h
}

impl Sink {
    fn bump(&mut self, k: &str, by: usize) {
        *self.hist.entry(k.to_string()).or_insert(0) += by;
    }
    fn take(&mut self, sc: &Scenario, spur: usize, mode: &str, o: &Outcome) {
        self.schedules += 1;
        self.bump(&format!("schedules_{}", mode), 1);
        let sched = format!("{} {} {}", sc.show(), spur, choices_str(&o.res.choice_list()));
        for (key, text) in &o.violations {
            self.violations += 1;
            writeln!(
                self.vio,
                "{{\"key\":{},\"text\":{},\"scenario\":{},\"spurious_budget\":{},\"choices\":{},\"mode\":{},\"trace\":{}}}",
                jstr(key),
                jstr(text),
                jstr(&sc.show()),
                spur,
                jstr(&choices_str(&o.res.choice_list())),
                jstr(mode),
                jstr(&o.request)
            )
            .unwrap();
        }
        if !self.seen.insert(fnv(&o.request)) {
            return;
        }
        self.distinct += 1;
        let f = &o.feats;
        let nontrivial = f.waits > 0 && f.slow_wakeups > 0;
        if nontrivial {
            self.nontrivial += 1;
        }
        self.bump(&format!("traces_n{}", sc.n), 1);
        if f.waits > 0 {
            self.bump("traces_with_wait", 1);
        }
        if f.slow_wakeups > 0 {
            self.bump("traces_with_slow_wake_up", 1);
        }
        if f.n1_none > 0 {
            self.bump("traces_notify_one_without_waiter", 1);
        }
        if f.false_returns > 0 {
            self.bump("traces_try_terminate_returned_false", 1);
        }
        if f.spurious > 0 {
            self.bump("traces_with_spurious_wakeup", 1);
        }
        if f.steals > 0 {
            self.bump("traces_with_steal", 1);
        }
        if o.res.status != Status::Completed {
            self.bump("traces_not_completed", 1);
        }
        self.bump("events", f.events);
        self.max_events = self.max_events.max(f.events);
        if nontrivial && self.samples.len() < 3 && f.false_returns > 0 {
            self.samples.push(format!("{{\"schedule\":{},\"trace\":{},\"expected\":{}}}", jstr(&sched), jstr(&o.request), jstr(&o.expected)));
        }
        writeln!(self.req, "{}", o.request).unwrap();
        writeln!(self.exp, "{}", o.expected).unwrap();
        writeln!(self.sch, "{}", sched).unwrap();
    }
}

fn scenarios(tier: &str) -> Vec<(&'static str, usize, usize, usize)> {
    // (scenario, preemption bound, spurious budget, cap on DFS runs)
    let quick: Vec<(&'static str, usize, usize, usize)> = vec![
        ("1/2/0/o1.s1.n", 2, 0, 1000),
        ("2/0/0,0/-/-", 3, 0, 20000),
        ("2/0/0,0/-/-", 2, 1, 20000),
        ("2/1/0,0/s1/s1", 2, 0, 20000),
        ("2/0/1,0/o1/o1", 3, 0, 30000),
        ("2/0/1,0/o2.n/o1", 2, 1, 30000),
        ("2/1/1,0/o1.s1/s1.o1", 2, 0, 30000),
        ("2/0/2,0/l2.m2/n.o1", 2, 0, 30000),
        ("3/0/0,0,0/-/-/-", 1, 0, 30000),
        ("3/0/0,0,0/-/-/-", 2, 0, 6000),
        ("3/0/1,0,0/o1/o1/o1", 1, 0, 30000),
        ("3/1/0,0,0/o2/s1/o1", 1, 1, 4000),
    ];
    if tier == "quick" {
        return quick;
    }
    let mut v = quick;
    v.extend(vec![
        ("2/0/1,0/o1/o1", 4, 1, 40000),
        ("2/1/1,0/o1.s1/s1.o1", 3, 1, 40000),
        ("2/2/0,0/s1.o1/o1.s1", 3, 0, 40000),
        ("3/0/0,0,0/-/-/-", 3, 1, 40000),
        ("3/0/1,0,0/o1/o1/o1", 2, 1, 40000),
        ("3/1/0,0,0/o2/s1/o1", 2, 1, 40000),
        ("3/2/1,0,0/s1.o1/o1/m1.s1", 2, 0, 40000),
        ("4/0/0,0,0,0/-/-/-/-", 2, 0, 40000),
        ("4/1/1,0,0,0/o1/s1/o1/s1", 1, 1, 40000),
    ]);
    v
}

fn random_scenario(r: &mut Rng) -> Scenario {
    let n = r.range(2, 4) as usize;
    let shared0 = r.below(3) as usize;
    let own0: Vec<usize> = (0..n).map(|_| r.below(3) as usize).collect();
    let mut scripts = Vec::new();
    for _ in 0..n {
        let len = r.below(4) as usize;
        let mut sc = Vec::new();
        for _ in 0..len {
            let k = 1 + r.below(2) as usize;
            sc.push(match r.below(5) {
                0 => Action::Nop,
                1 => Action::PushLocal(k),
                2 => Action::PushOwn(k),
                3 => Action::PushShared(k),
                _ => Action::Move(k),
            });
        }
        scripts.push(sc);
    }
    Scenario { n, shared0, own0, scripts }
}

fn main() {
    std::panic::set_hook(Box::new(|_| {}));
    if std::env::var("VERIF_NO_PIN").is_err() {
        shim::pin_to_current_cpu();
    }
    let args: Vec<String> = std::env::args().collect();
    match args.get(1).map(|s| s.as_str()) {
        Some("replay") => {
            let sc = Arc::new(Scenario::parse(&args[2]).expect("scenario"));
            let spur: usize = args[3].parse().expect("spurious budget");
            let ch = parse_choices(&args[4]);
            let o = run_one(&sc, spur, Box::new(Replay::new(ch)));
            println!("{}", o.request);
            println!("{}", o.expected);
            println!("status {:?} steps={} preemptions={} choices={}", o.res.status, o.res.steps, o.res.preemptions, choices_str(&o.res.choice_list()));
            for (k, t) in &o.violations {
                println!("violation {} {}", k, t);
            }
        }
        Some("run") => {
            let tier = args[2].clone();
            let out = args[3].clone();
            std::fs::create_dir_all(&out).unwrap();
            let f = |n: &str| std::io::BufWriter::new(std::fs::File::create(format!("{}/{}", out, n)).unwrap());
            let mut sink = Sink {
                req: f("traces.req"),
                exp: f("expected.resp"),
                sch: f("sched.txt"),
                vio: f("violations.jsonl"),
                seen: HashSet::new(),
                schedules: 0,
                distinct: 0,
                nontrivial: 0,
                violations: 0,
                hist: BTreeMap::new(),
                samples: Vec::new(),
                max_events: 0,
            };
            // 1. corpus: schedules that once failed
            if let Some(cf) = args.get(4) {
                if let Ok(txt) = std::fs::read_to_string(cf) {
                    for line in txt.lines() {
                        let line = line.trim();
                        if line.is_empty() || line.starts_with('#') {
                            continue;
                        }
                        let p: Vec<&str> = line.split_whitespace().collect();
                        if p.len() != 3 {
                            continue;
                        }
                        if let Ok(sc) = Scenario::parse(p[0]) {
                            let sc = Arc::new(sc);
                            let spur = p[1].parse().unwrap_or(0);
                            let o = run_one(&sc, spur, Box::new(Replay::new(parse_choices(p[2]))));
                            sink.take(&sc, spur, "corpus", &o);
                        }
                    }
                }
            }
            // 2. bounded DFS per scenario
            let mut dfs_info = Vec::new();
            for (txt, bound, spur, cap) in scenarios(&tier) {
                let sc = Arc::new(Scenario::parse(txt).expect("built-in scenario"));
                let mut dfs = Dfs::new(bound);
                let mut runs = 0usize;
                while let Some(ch) = dfs.next() {
                    let o = run_one(&sc, spur, ch);
                    dfs.record(&o.res);
                    sink.take(&sc, spur, "dfs", &o);
                    runs += 1;
                    if runs >= cap {
                        break;
                    }
                }
                if dfs.divergences > 0 {
                    sink.bump("dfs_replay_divergences", dfs.divergences);
                }
                dfs_info.push(format!(
                    "{{\"scenario\":{},\"preemption_bound\":{},\"spurious_budget\":{},\"schedules\":{},\"exhaustive\":{}}}",
                    jstr(txt),
                    bound,
                    spur,
                    runs,
                    dfs.exhausted()
                ));
            }
            // 3. seeded random schedules over random scenarios (PCT-style and uniform)
            let mut rng = Rng::from_env();
            let nrand = if tier == "quick" { 2000 } else { 30000 };
            for i in 0..nrand {
                let sc = Arc::new(random_scenario(&mut rng));
                let spur = rng.below(3) as usize;
                let seed = rng.next();
                let ch: Box<dyn Chooser> = if i % 2 == 0 {
                    Box::new(Pct::new(seed, 2 + (seed % 4) as usize, 60 + 30 * sc.n))
                } else {
                    Box::new(Uniform::new(seed))
                };
                let o = run_one(&sc, spur, ch);
                sink.take(&sc, spur, if i % 2 == 0 { "pct" } else { "uniform" }, &o);
            }
            sink.req.flush().unwrap();
            sink.exp.flush().unwrap();
            sink.sch.flush().unwrap();
            sink.vio.flush().unwrap();
            let hist: Vec<String> = sink.hist.iter().map(|(k, v)| format!("{}:{}", jstr(k), v)).collect();
            println!(
                "{{\"schedules\":{},\"distinct_traces\":{},\"nontrivial\":{},\"violations\":{},\"max_events\":{},\"histogram\":{{{}}},\"dfs\":[{}],\"samples\":[{}]}}",
                sink.schedules,
                sink.distinct,
                sink.nontrivial,
                sink.violations,
                sink.max_events,
                hist.join(","),
                dfs_info.join(","),
                sink.samples.join(",")
            );
        }
        _ => {
            eprintln!("usage: h_c12 run <quick|thorough> <outdir> [corpus] | h_c12 replay <scenario> <spur> <choices>");
            std::process::exit(2);
        }
    }
}
