//! Extracts the text of `HeaderWord` (constants, struct, impl, the two result enums) verbatim from
//! /repo/dora-runtime/src/mirror.rs into $OUT_DIR/headerword.rs, so the harness compiles the private
//! functions from the very source text of the working tree (the linked `dora_runtime::Header` only
//! exposes part of them with nameable result types).
use std::path::PathBuf;

const SRC: &str = "/repo/dora-runtime/src/mirror.rs";
const START: &str = "const FWDPTR_BIT";
const END: &str = "impl Header {";

fn main() {
    println!("cargo:rerun-if-changed={}", SRC);
    println!("cargo:rerun-if-changed=build.rs");
    let text = std::fs::read_to_string(SRC).unwrap_or_else(|e| panic!("h_c03 build.rs: cannot read {}: {}", SRC, e));
    let lines: Vec<&str> = text.lines().collect();
    let start = lines
        .iter()
        .position(|l| l.starts_with(START))
        .unwrap_or_else(|| panic!("h_c03 build.rs: start marker `{}` not found in {}", START, SRC));
    let end = lines
        .iter()
        .position(|l| l.starts_with(END))
        .unwrap_or_else(|| panic!("h_c03 build.rs: end marker `{}` not found in {}", END, SRC));
    if end <= start {
        panic!("h_c03 build.rs: end marker `{}` (line {}) precedes start marker `{}` (line {})", END, end + 1, START, start + 1);
    }
    let body = lines[start..end].join("\n");
    for needle in ["struct HeaderWord(AtomicUsize);", "impl HeaderWord {", "enum ForwardResult", "enum VtblptrWordKind",
                   "fn try_install_fwdptr", "fn try_mark", "fn compute_word", "fn vtblptr_or_fwdptr"] {
        if !body.contains(needle) {
            panic!("h_c03 build.rs: extracted text of {} (lines {}..{}) does not contain `{}`", SRC, start + 1, end, needle);
        }
    }
    let out = PathBuf::from(std::env::var("OUT_DIR").unwrap()).join("headerword.rs");
    std::fs::write(&out, body + "\n").unwrap();
}
