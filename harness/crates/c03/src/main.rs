//! C03 harness, header-word part: drives the real `HeaderWord` code of dora-runtime/src/mirror.rs.
//!   h_c03 gen <n>          write a request file to stdout (boundary cases, then n random; VERIF_SEED)
//!   h_c03 run [file]       answer requests (one per line) with the REAL implementation
//!
//! Three copies of the real code answer every request and must agree (else the answer is `!mismatch …`,
//! which the Lean model never prints):
//!   real    the text of mirror.rs from `const FWDPTR_BIT` up to `impl Header {` (extracted verbatim by
//!           build.rs) compiled against std's AtomicUsize;
//!   linked  the linked `dora_runtime::Header`, laid over a usize cell by pointer cast (only the public
//!           methods; the result enums of vtblptr_or_fwdptr / try_install_fwdptr cannot be named from
//!           outside the crate, so for those only the effect on the word and panicking are compared);
//!   shim    the same extracted text compiled against a scripted AtomicUsize (module `scripted`): a
//!           script says which value another thread has put into the word by the time of each CAS and
//!           whether a compare_exchange_weak fails spuriously. Without a script it behaves like std's.
//!
//! All numbers are 16-digit lower-case hex words; booleans are 0/1. Requests → responses:
//!   consts                                  → FWDPTR_BIT METADATA_OFFSET MARK_BIT_SHIFT MARK_BIT REMEMBERED_BIT_SHIFT REMEMBERED_BIT
//!   compute <vtbl> <base> <m> <r>           → <word>
//!   kind <word> <base>                      → v <addr> | f <addr>
//!   rawvtbl <word> <base>                   → <addr>
//!   installfwd <word> <addr>                → <newword>
//!   tryfwd <cur> <actual> <expvtbl> <base> <new>
//!                                           → ok <expected> <newword> | already <expected> <addr> <newword>
//!        (<cur> is what self.raw() reads, <actual> what the word holds when the CAS runs)
//!   trymark <word>                          → <claimed> <newword>
//!   trymarkx <word> [<actual>:<spurious>]…  → <claimed> <newword> <number of CAS attempts>
//!   clearmark|setrem|clearrem <word>        → <newword>
//!   ismarked|isrem <word>                   → 0 | 1
//!   cvtbl|sentinel <word>                   → <value>
//!   seq <word> <base> <op>…                 → one token per op, then `= <finalword>`
//!        ops: tm cm sr cr im ir cv se k rv if:<addr> tf:<expvtbl>:<new> su:<vtbl>:<m>:<r>
//!        tokens: tm/im/ir → 0|1; cv/se/rv → <value>; k → v:<addr>|f:<addr>; tf → ok|al:<addr>; others → -
//!   any panic (debug assertions and overflow checks are on) → exactly `!panic`
#![allow(dead_code, unused_imports)]
use hutil::Rng;
use std::panic::{catch_unwind, AssertUnwindSafe};

#[derive(Clone, Debug)]
pub enum Op {
    Tm,
    Cm,
    Sr,
    Cr,
    Im,
    Ir,
    Cv,
    Se,
    K,
    Rv,
    If(usize),
    Tf(usize, usize),
    Su(usize, bool, bool),
}

pub fn hex(v: usize) -> String {
    format!("{:016x}", v)
}
pub fn b01(v: bool) -> String {
    (if v { "1" } else { "0" }).to_string()
}

/// Scripted stand-in for `std::sync::atomic::AtomicUsize` (single thread; the other threads are a script).
pub mod scripted {
    use std::cell::{Cell, RefCell};
    use std::collections::VecDeque;
    use std::sync::atomic::Ordering;

    thread_local! {
        /// one entry per CAS to come: (value the word holds when the CAS executes, spurious failure)
        pub static EVENTS: RefCell<VecDeque<(usize, bool)>> = RefCell::new(VecDeque::new());
        /// (expected, new) of every CAS executed
        pub static CAS_LOG: RefCell<Vec<(usize, usize)>> = RefCell::new(Vec::new());
    }

    pub fn reset(events: &[(usize, bool)]) {
        EVENTS.with(|e| *e.borrow_mut() = events.iter().cloned().collect());
        CAS_LOG.with(|l| l.borrow_mut().clear());
    }
    pub fn cas_log() -> Vec<(usize, usize)> {
        CAS_LOG.with(|l| l.borrow().clone())
    }

    pub struct AtomicUsize(Cell<usize>);

    impl AtomicUsize {
        pub fn new(v: usize) -> AtomicUsize {
            AtomicUsize(Cell::new(v))
        }
        pub fn load(&self, _o: Ordering) -> usize {
            self.0.get()
        }
        pub fn store(&self, v: usize, _o: Ordering) {
            self.0.set(v)
        }
        pub fn fetch_and(&self, v: usize, _o: Ordering) -> usize {
            let old = self.0.get();
            self.0.set(old & v);
            old
        }
        fn cas(&self, current: usize, new: usize, weak: bool) -> Result<usize, usize> {
            let ev = EVENTS.with(|e| e.borrow_mut().pop_front());
            CAS_LOG.with(|l| l.borrow_mut().push((current, new)));
            let mut spurious = false;
            if let Some((actual, s)) = ev {
                self.0.set(actual);
                spurious = s && weak;
            }
            let seen = self.0.get();
            if seen == current && !spurious {
                self.0.set(new);
                Ok(seen)
            } else {
                Err(seen)
            }
        }
        pub fn compare_exchange(&self, current: usize, new: usize, _s: Ordering, _f: Ordering) -> Result<usize, usize> {
            self.cas(current, new, false)
        }
        pub fn compare_exchange_weak(&self, current: usize, new: usize, _s: Ordering, _f: Ordering) -> Result<usize, usize> {
            self.cas(current, new, true)
        }
    }
}

/// The body shared by `real` and `shim`: the verbatim text of mirror.rs plus wrappers that make the
/// private functions callable from outside the module.
macro_rules! header_word_api {
    () => {
        use dora_runtime::Address;
        mod dora_compiler {
            pub use dora_runtime::REMEMBERED_BIT_SHIFT;
        }
        include!(concat!(env!("OUT_DIR"), "/headerword.rs"));

        pub const CONSTS: [usize; 6] =
            [FWDPTR_BIT, METADATA_OFFSET, MARK_BIT_SHIFT, MARK_BIT, REMEMBERED_BIT_SHIFT, REMEMBERED_BIT];

        pub struct WordCell(HeaderWord);

        impl WordCell {
            pub fn new(w: usize) -> WordCell {
                WordCell(HeaderWord(AtomicUsize::new(w)))
            }
            pub fn raw(&self) -> usize {
                self.0.raw()
            }
            /// None: the function is not part of `HeaderWord` (only of `Header`)
            pub fn apply(&self, op: &crate::Op, base: usize) -> Option<String> {
                use crate::Op::*;
                use crate::{b01, hex};
                let h = &self.0;
                let dash = || Some("-".to_string());
                match *op {
                    Tm => Some(b01(h.try_mark())),
                    Cm => {
                        h.clear_mark();
                        dash()
                    }
                    Sr => {
                        h.set_remembered();
                        dash()
                    }
                    Cr => {
                        h.clear_remembered();
                        dash()
                    }
                    Im => Some(b01(h.is_marked())),
                    Ir => Some(b01(h.is_remembered())),
                    Cv | Se => None,
                    K => Some(match h.vtblptr_or_fwdptr(base.into()) {
                        VtblptrWordKind::Vtblptr(a) => format!("v:{}", hex(a.to_usize())),
                        VtblptrWordKind::Fwdptr(a) => format!("f:{}", hex(a.to_usize())),
                    }),
                    Rv => Some(hex(h.raw_vtblptr(base.into()).to_usize())),
                    If(a) => {
                        h.install_fwdptr(a.into());
                        dash()
                    }
                    Tf(ev, na) => Some(match h.try_install_fwdptr(ev.into(), base.into(), na.into()) {
                        ForwardResult::Forwarded => "ok".to_string(),
                        ForwardResult::AlreadyForwarded(a) => format!("al:{}", hex(a.to_usize())),
                    }),
                    Su(v, m, r) => {
                        h.setup(v.into(), base.into(), m, r);
                        dash()
                    }
                }
            }
        }

        pub fn compute_word(vtbl: usize, base: usize, m: bool, r: bool) -> usize {
            HeaderWord::compute_word(vtbl.into(), base.into(), m, r)
        }
    };
}

/// extracted text against std's atomics
pub mod real {
    use std::sync::atomic::{AtomicUsize, Ordering};
    header_word_api!();
}

/// extracted text against the scripted atomic
pub mod shim {
    use crate::scripted::AtomicUsize;
    use std::sync::atomic::Ordering;
    header_word_api!();
}

/// the linked `dora_runtime::Header` over a plain word
pub mod linked {
    use crate::{b01, hex, Op};
    use dora_runtime::{Address, Header};
    use std::sync::atomic::{AtomicUsize, Ordering};

    pub struct WordCell(AtomicUsize);

    impl WordCell {
        pub fn new(w: usize) -> WordCell {
            assert_eq!(std::mem::size_of::<Header>(), std::mem::size_of::<usize>());
            assert_eq!(std::mem::align_of::<Header>(), std::mem::align_of::<usize>());
            assert_eq!(Header::offset_shape_word(), 0);
            WordCell(AtomicUsize::new(w))
        }
        pub fn raw(&self) -> usize {
            self.0.load(Ordering::Relaxed)
        }
        fn header(&self) -> &Header {
            // Header is #[repr(C)] { word: HeaderWord }, HeaderWord is #[repr(C)] (AtomicUsize)
            unsafe { &*(self.0.as_ptr() as *const Header) }
        }
        /// Some(None): called, but the result cannot be inspected from outside the crate; None: not callable
        pub fn apply(&self, op: &Op, base: usize) -> Option<Option<String>> {
            use Op::*;
            let h = self.header();
            let dash = || Some(Some("-".to_string()));
            match *op {
                Tm => Some(Some(b01(h.try_mark()))),
                Cm => {
                    h.clear_mark();
                    dash()
                }
                Sr => {
                    h.set_remembered();
                    dash()
                }
                Cr => {
                    h.clear_remembered();
                    dash()
                }
                Im => Some(Some(b01(h.is_marked()))),
                Ir => Some(Some(b01(h.is_remembered()))),
                Cv => Some(Some(hex(h.compressed_vtblptr()))),
                Se => Some(Some(hex(h.sentinel()))),
                K => {
                    let _ = h.vtblptr_or_fwdptr(base.into());
                    Some(None)
                }
                Rv => None, // Header::raw_vtblptr is private; Header::shape would form a reference to it
                If(a) => {
                    h.install_fwdptr(a.into());
                    dash()
                }
                Tf(ev, na) => {
                    // NOTE the parameter order of the public method: shape_base, expected_vtblptr, new_address
                    let _ = h.try_install_fwdptr(base.into(), ev.into(), na.into());
                    Some(None)
                }
                Su(v, m, r) => {
                    h.setup_header_word(v.into(), base.into(), m, r);
                    dash()
                }
            }
        }
    }

    pub fn compute_word(vtbl: usize, base: usize, m: bool, r: bool) -> usize {
        Header::compute_header_word(Address::from(vtbl), Address::from(base), m, r)
    }
}

const PANIC: &str = "!panic";

enum Out {
    Tokens(Vec<String>, usize),
    Panic,
    Mismatch(String),
}

fn guard<T>(f: impl FnOnce() -> T) -> Result<T, ()> {
    catch_unwind(AssertUnwindSafe(f)).map_err(|_| ())
}

/// apply the ops in order to one cell of each of the three copies; every step must agree
fn run_ops(word: usize, base: usize, ops: &[Op]) -> Out {
    let r = real::WordCell::new(word);
    let s = shim::WordCell::new(word);
    let l = linked::WordCell::new(word);
    scripted::reset(&[]);
    let mut toks = Vec::new();
    for (i, op) in ops.iter().enumerate() {
        let a = guard(|| r.apply(op, base));
        let b = guard(|| s.apply(op, base));
        if a.is_err() != b.is_err() {
            return Out::Mismatch(format!("op#{} {:?}: real panicked={} shim panicked={}", i, op, a.is_err(), b.is_err()));
        }
        let mut tok: Option<String> = None;
        if let (Ok(x), Ok(y)) = (&a, &b) {
            if x != y {
                return Out::Mismatch(format!("op#{} {:?}: real={:?} shim={:?}", i, op, x, y));
            }
            tok = x.clone();
        }
        if !matches!(op, Op::Rv) {
            let c = guard(|| l.apply(op, base));
            if c.is_err() != a.is_err() {
                return Out::Mismatch(format!("op#{} {:?}: real panicked={} linked panicked={}", i, op, a.is_err(), c.is_err()));
            }
            if let Ok(Some(Some(z))) = c {
                match &tok {
                    Some(x) if *x != z => return Out::Mismatch(format!("op#{} {:?}: real={} linked={}", i, op, x, z)),
                    Some(_) => {}
                    None => tok = Some(z),
                }
            }
        } else if a.is_ok() {
            // keep the linked cell in step: rv does not change the word
        }
        if a.is_err() {
            return Out::Panic;
        }
        if r.raw() != s.raw() || r.raw() != l.raw() {
            return Out::Mismatch(format!("op#{} {:?}: word real={} shim={} linked={}", i, op, hex(r.raw()), hex(s.raw()), hex(l.raw())));
        }
        match tok {
            Some(t) => toks.push(t),
            None => return Out::Mismatch(format!("op#{} {:?}: no copy produced a result", i, op)),
        }
    }
    Out::Tokens(toks, r.raw())
}

fn h(s: &str) -> usize {
    assert!(s.len() == 16, "hex word must have 16 digits");
    usize::from_str_radix(s, 16).expect("hex word")
}
fn bit(s: &str) -> bool {
    match s {
        "0" => false,
        "1" => true,
        _ => panic!("bool must be 0 or 1"),
    }
}

fn parse_op(t: &str) -> Option<Op> {
    let p: Vec<&str> = t.split(':').collect();
    Some(match (p[0], p.len()) {
        ("tm", 1) => Op::Tm,
        ("cm", 1) => Op::Cm,
        ("sr", 1) => Op::Sr,
        ("cr", 1) => Op::Cr,
        ("im", 1) => Op::Im,
        ("ir", 1) => Op::Ir,
        ("cv", 1) => Op::Cv,
        ("se", 1) => Op::Se,
        ("k", 1) => Op::K,
        ("rv", 1) => Op::Rv,
        ("if", 2) => Op::If(h(p[1])),
        ("tf", 3) => Op::Tf(h(p[1]), h(p[2])),
        ("su", 4) => Op::Su(h(p[1]), bit(p[2]), bit(p[3])),
        _ => return None,
    })
}

/// one op on one word; `fmt` turns (token, final word) into the response
fn single(word: usize, base: usize, op: Op, fmt: impl Fn(&str, usize) -> String) -> String {
    match run_ops(word, base, &[op]) {
        Out::Tokens(t, w) => fmt(&t[0], w),
        Out::Panic => PANIC.to_string(),
        Out::Mismatch(m) => format!("!mismatch {}", m),
    }
}

fn respond(line: &str) -> String {
    let p: Vec<&str> = line.split(' ').collect();
    match (p[0], p.len()) {
        ("consts", 1) => {
            if real::CONSTS != shim::CONSTS {
                return "!mismatch consts".to_string();
            }
            if real::CONSTS[4] != dora_runtime::REMEMBERED_BIT_SHIFT || real::CONSTS[1] != dora_runtime::Header::offset_metadata_word() {
                return "!mismatch consts linked".to_string();
            }
            real::CONSTS.iter().map(|c| hex(*c)).collect::<Vec<_>>().join(" ")
        }
        ("compute", 5) => {
            let (v, b, m, r) = (h(p[1]), h(p[2]), bit(p[3]), bit(p[4]));
            let x = guard(|| real::compute_word(v, b, m, r));
            let y = guard(|| shim::compute_word(v, b, m, r));
            let z = guard(|| linked::compute_word(v, b, m, r));
            if x != y || x != z {
                return format!("!mismatch compute real={:?} shim={:?} linked={:?}", x, y, z);
            }
            // setup = set_raw(compute_word): same word must land in a cell that held something else
            let viaseq = run_ops(0x5555_5555_5555_5555, b, &[Op::Su(v, m, r)]);
            match (x, viaseq) {
                (Ok(w), Out::Tokens(_, w2)) if w == w2 => hex(w),
                (Err(()), Out::Panic) => PANIC.to_string(),
                (_, Out::Mismatch(mm)) => format!("!mismatch {}", mm),
                _ => "!mismatch compute vs setup".to_string(),
            }
        }
        ("kind", 3) => single(h(p[1]), h(p[2]), Op::K, |t, _| t.replace(':', " ")),
        ("rawvtbl", 3) => single(h(p[1]), h(p[2]), Op::Rv, |t, _| t.to_string()),
        ("installfwd", 3) => single(h(p[1]), 0, Op::If(h(p[2])), |_, w| hex(w)),
        ("tryfwd", 6) => {
            let (cur, actual, ev, base, na) = (h(p[1]), h(p[2]), h(p[3]), h(p[4]), h(p[5]));
            // scripted copy: the word holds `actual` by the time the CAS runs
            let s = shim::WordCell::new(cur);
            scripted::reset(&[(actual, false)]);
            let res = guard(|| s.apply(&Op::Tf(ev, na), base));
            let log = scripted::cas_log();
            let mine = match &res {
                Ok(Some(t)) if log.len() == 1 => {
                    let expected = log[0].0;
                    if log[0].1 != (na | 1) {
                        return "!mismatch tryfwd: new value of the CAS".to_string();
                    }
                    if t == "ok" {
                        format!("ok {} {}", hex(expected), hex(s.raw()))
                    } else {
                        format!("already {} {} {}", hex(expected), &t[3..], hex(s.raw()))
                    }
                }
                Ok(_) => return "!mismatch tryfwd: expected exactly one CAS".to_string(),
                Err(()) => PANIC.to_string(),
            };
            if actual == cur {
                // no interference: the std-atomic copy and the linked Header must do the same
                let quiet = single(cur, base, Op::Tf(ev, na), |t, w| format!("{} {}", t, hex(w)));
                let want = if mine == PANIC {
                    PANIC.to_string()
                } else {
                    let q: Vec<&str> = mine.split(' ').collect();
                    if q[0] == "ok" { format!("ok {}", q[2]) } else { format!("al:{} {}", q[2], q[3]) }
                };
                if quiet != want {
                    return format!("!mismatch tryfwd scripted=[{}] quiet=[{}]", mine, quiet);
                }
            }
            mine
        }
        ("trymark", 2) => single(h(p[1]), 0, Op::Tm, |t, w| format!("{} {}", t, hex(w))),
        ("trymarkx", _) if p.len() >= 2 => {
            let word = h(p[1]);
            let mut evs = Vec::new();
            for t in &p[2..] {
                let q: Vec<&str> = t.split(':').collect();
                if q.len() != 2 {
                    return "!badreq".to_string();
                }
                evs.push((h(q[0]), bit(q[1])));
            }
            let s = shim::WordCell::new(word);
            scripted::reset(&evs);
            match guard(|| s.apply(&Op::Tm, 0)) {
                Ok(Some(t)) => format!("{} {} {}", t, hex(s.raw()), hex(scripted::cas_log().len())),
                Ok(None) => "!mismatch trymarkx".to_string(),
                Err(()) => PANIC.to_string(),
            }
        }
        ("clearmark", 2) => single(h(p[1]), 0, Op::Cm, |_, w| hex(w)),
        ("setrem", 2) => single(h(p[1]), 0, Op::Sr, |_, w| hex(w)),
        ("clearrem", 2) => single(h(p[1]), 0, Op::Cr, |_, w| hex(w)),
        ("ismarked", 2) => single(h(p[1]), 0, Op::Im, |t, _| t.to_string()),
        ("isrem", 2) => single(h(p[1]), 0, Op::Ir, |t, _| t.to_string()),
        ("cvtbl", 2) => single(h(p[1]), 0, Op::Cv, |t, _| t.to_string()),
        ("sentinel", 2) => single(h(p[1]), 0, Op::Se, |t, _| t.to_string()),
        ("seq", _) if p.len() >= 3 => {
            let mut ops = Vec::new();
            for t in &p[3..] {
                match parse_op(t) {
                    Some(o) => ops.push(o),
                    None => return "!badreq".to_string(),
                }
            }
            match run_ops(h(p[1]), h(p[2]), &ops) {
                Out::Tokens(mut t, w) => {
                    t.push(format!("= {}", hex(w)));
                    t.join(" ")
                }
                Out::Panic => PANIC.to_string(),
                Out::Mismatch(m) => format!("!mismatch {}", m),
            }
        }
        _ => "!badreq".to_string(),
    }
}

// ------------------------------------------------------------------------------------------ generator

const MARK: usize = 1 << 32;
const REM: usize = 1 << 33;
const SENT: usize = 0xFFFF_FFFC << 32;

fn boundary_words() -> Vec<usize> {
    let mut v = vec![0usize, 1, usize::MAX, MARK, REM, MARK | REM, usize::MAX - 1, 0xFFFF_FFFF, 0xFFFF_FFFE, 0x1_0000_0000 - 2];
    for i in 0..64 {
        v.push(1usize << i);
    }
    for meta in [SENT, SENT | MARK, SENT | REM, SENT | MARK | REM, 0, MARK, REM, 0xFFFF_FFF8 << 32, 0x8000_0000 << 32] {
        for low in [0usize, 0xFFFF_FFFE, 0xFFFF_FFFF, 0x1238, 0x8000_0000, 2] {
            v.push(meta | low);
        }
    }
    for a in [0usize, 8, 0x1000, 0x7fff_ffff_fff8, 0xFFFF_FFFF_FFFF_FFF8, 0x0000_5555_0000_1230, 0xFFFF_FFFC_0000_0000] {
        v.push(a | 1);
    }
    v
}

const BASES: [usize; 9] = [
    0,
    0x1000,
    0x10_0000_0000,
    0x7f12_3456_7000,
    0xFFFF_FFFF_0000_0000,
    0xFFFF_FFFF_FFFF_FFF0,
    1,
    0x1001,
    0x0000_5555_0000_0000,
];

fn rand_word(r: &mut Rng, base: usize) -> usize {
    match r.below(8) {
        0 | 1 => {
            // a well-formed shape word
            let off = (r.next() as usize & 0xFFFF_FFFF) & !7;
            let mut w = SENT | off;
            if r.chance(1, 2) {
                w |= MARK;
            }
            if r.chance(1, 2) {
                w |= REM;
            }
            w
        }
        2 => (r.next() as usize & !7) | 1,                       // forwarding word of an aligned address
        3 => (0x7f00_0000_0000 + (r.below(1 << 30) as usize) * 8) | 1,
        4 => r.next() as usize,                                  // anything
        5 => *r.pickv(&boundary_words()),
        6 => {
            // sparse: a few random bits
            let mut w = 0usize;
            for _ in 0..r.below(5) {
                w |= 1usize << r.below(64);
            }
            w
        }
        _ => {
            // shape-like word with damaged metadata half
            let off = (r.next() as usize & 0xFFFF_FFFF) & !1;
            let _ = base;
            ((r.next() as usize) << 32) | off
        }
    }
}

fn rand_base(r: &mut Rng) -> usize {
    match r.below(6) {
        0 => *r.pickv(&BASES),
        1 => 0,
        2 => (r.next() as usize) & !0xFFF & 0x7FFF_FFFF_FFFF,
        3 => (r.next() as usize) & !7,
        4 => r.next() as usize,
        _ => 0x7f00_0000_0000 + ((r.below(1 << 20) as usize) << 12),
    }
}

fn rand_addr(r: &mut Rng) -> usize {
    match r.below(5) {
        0 => r.next() as usize,
        1 => (r.next() as usize) | 1,
        _ => (r.next() as usize & 0x7FFF_FFFF_FFFF) & !7,
    }
}

/// an expected vtblptr for a tryfwd on `word`: mostly the one the word encodes, sometimes off
fn rand_expected(r: &mut Rng, word: usize, base: usize) -> usize {
    let low = word & 0xFFFF_FFFF;
    match r.below(8) {
        0 => base.wrapping_add(low ^ 8),
        1 => base.wrapping_sub(8),                               // below the base: offset_from asserts
        2 => base.wrapping_add(low).wrapping_add(1 << 32),       // compressed value wider than 32 bits
        3 => r.next() as usize,
        4 => base.wrapping_add(low | 1),
        _ => base.wrapping_add(low),
    }
}

fn rand_op_token(r: &mut Rng, word: usize, base: usize) -> String {
    match r.below(16) {
        0 | 1 => "tm".to_string(),
        2 => "cm".to_string(),
        3 => "sr".to_string(),
        4 => "cr".to_string(),
        5 => "im".to_string(),
        6 => "ir".to_string(),
        7 => "cv".to_string(),
        8 => "se".to_string(),
        9 => "k".to_string(),
        10 => "rv".to_string(),
        11 => format!("if:{}", hex(rand_addr(r))),
        12 | 13 => format!("tf:{}:{}", hex(rand_expected(r, word, base)), hex(rand_addr(r))),
        _ => format!(
            "su:{}:{}:{}",
            hex(if r.chance(1, 8) { r.next() as usize } else { base.wrapping_add((r.next() as usize & 0xFFFF_FFFF) & !7) }),
            r.below(2),
            r.below(2)
        ),
    }
}

fn gen(n: usize) {
    let mut r = Rng::from_env();
    println!("consts");
    let words = boundary_words();
    // boundary words × every single-word operation
    for &w in &words {
        for op in ["trymark", "clearmark", "setrem", "clearrem", "ismarked", "isrem", "cvtbl", "sentinel", "trymarkx"] {
            println!("{} {}", op, hex(w));
        }
        for a in [0usize, 8, 0x1001, 0xFFFF_FFFF_FFFF_FFF8, usize::MAX] {
            println!("installfwd {} {}", hex(w), hex(a));
        }
        for &b in &BASES {
            println!("kind {} {}", hex(w), hex(b));
            println!("rawvtbl {} {}", hex(w), hex(b));
            let low = w & 0xFFFF_FFFF;
            for ev in [b.wrapping_add(low), b.wrapping_add(low ^ 8), b.wrapping_sub(8), b.wrapping_add(low).wrapping_add(1 << 32)] {
                for na in [0x2000usize, 0x2001] {
                    println!("tryfwd {} {} {} {} {}", hex(w), hex(w), hex(ev), hex(b), hex(na));
                }
            }
        }
        // scripted: every boundary word against a marked / unmarked / spurious interference
        println!("trymarkx {} {}:1", hex(w), hex(w));
        println!("trymarkx {} {}:1 {}:1 {}:0", hex(w), hex(w), hex(w), hex(w));
        println!("trymarkx {} {}:0", hex(w), hex(w | MARK));
        println!("trymarkx {} {}:0 {}:1", hex(w), hex(w ^ REM), hex(w ^ REM));
        println!("trymarkx {} {}:0", hex(w), hex(0x4000_0001));
        // the second installer: forward, then try again with another address
        println!("seq {} {} tf:{}:{} k tf:{}:{} k tm im ir", hex(w), hex(0x1000), hex(0x1000 + (w & 0xFFFF_FFFF)), hex(0x7000), hex(0x1000 + (w & 0xFFFF_FFFF)), hex(0x9000));
    }
    for &b in &BASES {
        for v in [b, b.wrapping_add(8), b.wrapping_add(0xFFFF_FFFE), b.wrapping_add(0xFFFF_FFFF), b.wrapping_add(1 << 32), b.wrapping_sub(1), b.wrapping_sub(8), b.wrapping_add(0x1238), 0, usize::MAX] {
            for m in 0..2 {
                for rr in 0..2 {
                    println!("compute {} {} {} {}", hex(v), hex(b), m, rr);
                }
            }
        }
    }
    // random part
    for i in 0..n {
        let base = rand_base(&mut r);
        let w = rand_word(&mut r, base);
        match i % 16 {
            0 => {
                let v = match r.below(6) {
                    0 => r.next() as usize,
                    1 => base.wrapping_sub(r.below(64) as usize),
                    2 => base.wrapping_add((1usize << 32) - 8 + (r.below(4) as usize) * 8),
                    _ => base.wrapping_add((r.next() as usize & 0xFFFF_FFFF) & !7),
                };
                println!("compute {} {} {} {}", hex(v), hex(base), r.below(2), r.below(2));
            }
            1 => println!("kind {} {}", hex(w), hex(base)),
            2 => println!("rawvtbl {} {}", hex(w), hex(base)),
            3 => println!("installfwd {} {}", hex(w), hex(rand_addr(&mut r))),
            4 | 5 => {
                // no interference (actual = cur): failing path only via a word that is not the expected shape word
                let ev = rand_expected(&mut r, w, base);
                println!("tryfwd {} {} {} {} {}", hex(w), hex(w), hex(ev), hex(base), hex(rand_addr(&mut r)));
            }
            6 => {
                // interference: another thread changed the word between the read and the CAS
                let ev = rand_expected(&mut r, w, base);
                let actual = match r.below(5) {
                    0 => rand_addr(&mut r) | 1,   // the other thread forwarded it
                    1 => w ^ MARK,                // … marked it
                    2 => w ^ REM,                 // … changed the remembered bit
                    3 => w,
                    _ => rand_word(&mut r, base),
                };
                println!("tryfwd {} {} {} {} {}", hex(w), hex(actual), hex(ev), hex(base), hex(rand_addr(&mut r)));
            }
            7 => println!("trymark {}", hex(w)),
            8 => {
                let mut s = format!("trymarkx {}", hex(w));
                let mut cur = w;
                for _ in 0..r.below(6) {
                    let actual = match r.below(6) {
                        0 => cur | MARK,
                        1 => cur ^ REM,
                        2 => rand_word(&mut r, base),
                        3 => cur & !MARK,
                        _ => cur,
                    };
                    s.push_str(&format!(" {}:{}", hex(actual), r.below(2)));
                    cur = actual;
                }
                println!("{}", s);
            }
            9 => println!("{} {}", r.pick(&["clearmark", "setrem", "clearrem"]), hex(w)),
            10 => println!("{} {}", r.pick(&["ismarked", "isrem", "cvtbl", "sentinel"]), hex(w)),
            _ => {
                let mut s = format!("seq {} {}", hex(w), hex(base));
                for _ in 0..(1 + r.below(8)) {
                    s.push(' ');
                    s.push_str(&rand_op_token(&mut r, w, base));
                }
                println!("{}", s);
            }
        }
    }
}

fn main() {
    let args: Vec<String> = std::env::args().collect();
    match args.get(1).map(|s| s.as_str()) {
        Some("gen") => gen(args.get(2).and_then(|s| s.parse().ok()).unwrap_or(1000)),
        Some("run") => hutil::serve(args.get(2).map(|s| s.as_str()), &mut |l| {
            // a panic outside the guarded calls to the real code is a malformed request
            match catch_unwind(AssertUnwindSafe(|| respond(l))) {
                Ok(s) => s,
                Err(_) => "!badreq".to_string(),
            }
        }),
        _ => eprintln!("usage: h_c03 gen <n> | run [file]"),
    }
}
