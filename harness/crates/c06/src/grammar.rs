//! Grammar-directed random Dora programs: a typed recursive generator over items / statements / expressions /
//! patterns / types that produces mostly-valid single-file programs and seeds them with faults
//! (wrong arity, unknown names, duplicate definitions, bad generics, cyclic aliases, wrong types, misplaced
//! control flow, non-exhaustive matches, syntax slips, deep nesting up to a bound).
//! Every choice comes from the PRNG handed in (seeded by VERIF_SEED).
use hutil::Rng;

#[derive(Clone, Debug, PartialEq)]
enum Ty {
    Int64,
    Int32,
    UInt8,
    Bool,
    Str,
    Float64,
    Char,
    Unit,
    Tuple(Vec<Ty>),
    Opt(Box<Ty>),
    Vec(Box<Ty>),
    Array(Box<Ty>),
    Lambda(Vec<Ty>, Box<Ty>),
    Named(String, Vec<Ty>), // class / struct / enum / alias
    Param(String),
}

impl Ty {
    fn show(&self) -> String {
        match self {
            Ty::Int64 => "Int64".into(),
            Ty::Int32 => "Int32".into(),
            Ty::UInt8 => "UInt8".into(),
            Ty::Bool => "Bool".into(),
            Ty::Str => "String".into(),
            Ty::Float64 => "Float64".into(),
            Ty::Char => "Char".into(),
            Ty::Unit => "()".into(),
            Ty::Tuple(ts) => {
                if ts.len() == 1 {
                    format!("({},)", ts[0].show())
                } else {
                    format!("({})", ts.iter().map(|t| t.show()).collect::<Vec<_>>().join(", "))
                }
            }
            Ty::Opt(t) => format!("Option[{}]", t.show()),
            Ty::Vec(t) => format!("Vec[{}]", t.show()),
            Ty::Array(t) => format!("Array[{}]", t.show()),
            Ty::Lambda(ps, r) => format!("({}): {}", ps.iter().map(|t| t.show()).collect::<Vec<_>>().join(", "), r.show()),
            Ty::Named(n, args) => {
                if args.is_empty() {
                    n.clone()
                } else {
                    format!("{}[{}]", n, args.iter().map(|t| t.show()).collect::<Vec<_>>().join(", "))
                }
            }
            Ty::Param(n) => n.clone(),
        }
    }
}

#[derive(Clone)]
struct Record {
    name: String,
    is_class: bool,
    tparams: Vec<String>,
    named: bool,
    fields: Vec<(String, Ty)>,
}

#[derive(Clone)]
struct EnumDef {
    name: String,
    variants: Vec<(String, Vec<Ty>)>,
}

#[derive(Clone)]
struct FnDef {
    name: String,
    tparams: Vec<String>,
    params: Vec<Ty>,
    ret: Ty,
}

#[derive(Clone)]
struct TraitDef {
    name: String,
    methods: Vec<FnDef>,
    has_assoc: bool,
}

#[derive(Clone)]
struct Var {
    name: String,
    ty: Ty,
    mutable: bool,
}

pub struct Gen<'a> {
    r: &'a mut Rng,
    records: Vec<Record>,
    enums: Vec<EnumDef>,
    fns: Vec<FnDef>,
    traits: Vec<TraitDef>,
    methods: Vec<(String, FnDef)>, // (record name, method)
    consts: Vec<(String, Ty)>,
    globals: Vec<(String, Ty, bool)>,
    aliases: Vec<(String, Ty)>,
    scopes: Vec<Vec<Var>>,
    tparams: Vec<String>,
    in_loop: usize,
    ret: Ty,
    counter: usize,
    fault_rate: u64, // per mille, at every decision point
    faults: Vec<&'static str>,
    max_depth: usize,
}

const TYPE_NAMES: &[&str] = &["Foo", "Bar", "Baz", "Node", "Point", "Pair", "Wrapper", "Item"];

impl<'a> Gen<'a> {
    fn fresh(&mut self, base: &str) -> String {
        self.counter += 1;
        format!("{}{}", base, self.counter)
    }

    fn fault(&mut self, name: &'static str) -> bool {
        if self.fault_rate > 0 && self.r.below(1000) < self.fault_rate {
            self.faults.push(name);
            true
        } else {
            false
        }
    }

    // ------------------------------------------------------------------ types

    fn prim(&mut self) -> Ty {
        match self.r.below(9) {
            0 | 1 | 2 => Ty::Int64,
            3 => Ty::Int32,
            4 => Ty::Bool,
            5 => Ty::Str,
            6 => Ty::Float64,
            7 => Ty::Char,
            _ => Ty::UInt8,
        }
    }

    fn ty(&mut self, depth: usize) -> Ty {
        if depth == 0 {
            return self.prim();
        }
        match self.r.below(14) {
            0 | 1 | 2 | 3 | 4 => self.prim(),
            5 => {
                let n = 2 + self.r.below(2) as usize;
                Ty::Tuple((0..n).map(|_| self.ty(depth - 1)).collect())
            }
            6 => Ty::Opt(Box::new(self.ty(depth - 1))),
            7 => Ty::Vec(Box::new(self.ty(depth - 1))),
            8 => Ty::Array(Box::new(self.ty(depth - 1))),
            9 => {
                let n = self.r.below(3) as usize;
                Ty::Lambda((0..n).map(|_| self.prim()).collect(), Box::new(self.prim()))
            }
            10 | 11 => {
                if self.records.is_empty() {
                    return self.prim();
                }
                let rec = self.records[self.r.below(self.records.len() as u64) as usize].clone();
                let args = rec.tparams.iter().map(|_| self.ty(depth - 1)).collect();
                Ty::Named(rec.name, args)
            }
            12 => {
                if self.enums.is_empty() {
                    return self.prim();
                }
                let e = self.enums[self.r.below(self.enums.len() as u64) as usize].name.clone();
                Ty::Named(e, vec![])
            }
            _ => {
                if !self.tparams.is_empty() && self.r.chance(1, 2) {
                    Ty::Param(self.r.pickv(&self.tparams).clone())
                } else if !self.aliases.is_empty() {
                    let (n, _) = self.r.pickv(&self.aliases).clone();
                    Ty::Named(n, vec![])
                } else {
                    self.prim()
                }
            }
        }
    }

    /// the text of a type, possibly damaged
    fn ty_text(&mut self, t: &Ty) -> String {
        if self.fault("unknown-type") {
            return (*self.r.pick(&["Unknown", "int", "Foo::Bar", "std::Nothing", "Vec", "Option", "Int64[Int64]", "Self", "T9"])).to_string();
        }
        if self.fault("bad-type-args") {
            return match self.r.below(4) {
                0 => format!("{}[Int64]", t.show()),
                1 => "Vec[Int64, Bool]".to_string(),
                2 => "Option[]".to_string(),
                _ => "Array[Vec]".to_string(),
            };
        }
        t.show()
    }

    // ------------------------------------------------------------------ expressions

    fn vars_of(&self, t: &Ty) -> Vec<Var> {
        let mut v = Vec::new();
        for s in &self.scopes {
            for x in s {
                if &x.ty == t {
                    v.push(x.clone());
                }
            }
        }
        v
    }

    fn all_vars(&self) -> Vec<Var> {
        self.scopes.iter().flatten().cloned().collect()
    }

    fn literal(&mut self, t: &Ty) -> String {
        match t {
            Ty::Int64 => {
                if self.fault("int-overflow") {
                    return (*self.r.pick(&["9223372036854775808", "0x1_0000_0000_0000_0000", "99999999999999999999"])).to_string();
                }
                (*self.r.pick(&["0", "1", "2", "42", "1_000", "0xff", "0b101", "9223372036854775807", "7i64"])).to_string()
            }
            Ty::Int32 => (*self.r.pick(&["0i32", "1i32", "17i32", "2147483647i32"])).to_string(),
            Ty::UInt8 => {
                if self.fault("int-overflow") {
                    return "256u8".to_string();
                }
                (*self.r.pick(&["0u8", "255u8", "7u8"])).to_string()
            }
            Ty::Bool => (*self.r.pick(&["true", "false"])).to_string(),
            Ty::Str => (*self.r.pick(&["\"\"", "\"abc\"", "\"é世\"", "\"a\\nb\"", "\"q\\\"q\""])).to_string(),
            Ty::Float64 => (*self.r.pick(&["0.0", "1.5", "2.0e10", "3.25f64"])).to_string(),
            Ty::Char => (*self.r.pick(&["'a'", "'\\n'", "'世'", "'\\''"])).to_string(),
            Ty::Unit => "()".to_string(),
            _ => "0".to_string(),
        }
    }

    fn wrong_type(&mut self, t: &Ty) -> Ty {
        for _ in 0..4 {
            let c = self.prim();
            if &c != t {
                return c;
            }
        }
        Ty::Tuple(vec![Ty::Int64, Ty::Bool])
    }

    fn args(&mut self, params: &[Ty], depth: usize) -> String {
        let mut ps: Vec<Ty> = params.to_vec();
        if self.fault("arity") {
            if !ps.is_empty() && self.r.chance(1, 2) {
                ps.pop();
            } else {
                ps.push(Ty::Int64);
            }
        }
        let mut parts: Vec<String> = ps.iter().map(|p| self.expr(p, depth)).collect();
        if !parts.is_empty() && self.fault("named-arg") {
            let i = self.r.below(parts.len() as u64) as usize;
            parts[i] = format!("zz = {}", parts[i]);
        }
        parts.join(", ")
    }

    fn expr(&mut self, t: &Ty, depth: usize) -> String {
        if self.fault("wrong-type") {
            let w = self.wrong_type(t);
            return self.expr_of(&w, depth.min(1));
        }
        if self.fault("unknown-name") {
            return (*self.r.pick(&["nope", "undefined_fn(1)", "Nope::new()", "std::nope()", "self", "x.y.z", "Self::K", "super::q", "nope.0"])).to_string();
        }
        self.expr_of(t, depth)
    }

    fn expr_of(&mut self, t: &Ty, depth: usize) -> String {
        // a variable / constant of this type
        let vs = self.vars_of(t);
        if !vs.is_empty() && self.r.chance(2, 5) {
            return self.r.pickv(&vs).name.clone();
        }
        if depth == 0 {
            return self.atom(t);
        }
        let d = depth - 1;
        // generic producers of any type
        match self.r.below(16) {
            0 => {
                // call of a function returning t
                let cands: Vec<FnDef> = self.fns.iter().filter(|f| &f.ret == t && f.tparams.is_empty()).cloned().collect();
                if !cands.is_empty() {
                    let f = self.r.pickv(&cands).clone();
                    let a = self.args(&f.params, d);
                    return format!("{}({})", f.name, a);
                }
            }
            1 => {
                // if expression
                let c = self.expr(&Ty::Bool, d);
                let a = self.expr(t, d);
                let b = self.expr(t, d);
                if self.fault("if-no-else") {
                    return format!("(if {} {{ {} }})", c, a);
                }
                return format!("(if {} {{ {} }} else {{ {} }})", c, a, b);
            }
            2 => {
                // block expression
                let x = self.fresh("t");
                let ity = self.prim();
                let init = self.expr(&ity, d);
                self.scopes.push(vec![Var { name: x.clone(), ty: ity, mutable: false }]);
                let body = self.expr(t, d);
                self.scopes.pop();
                return format!("{{ let {} = {}; {} }}", x, init, body);
            }
            3 => {
                // match on an enum / bool / int
                return self.match_expr(t, d);
            }
            4 => {
                // tuple projection
                let other = self.prim();
                let a = self.expr(t, d);
                let b = self.expr(&other, d);
                let idx = if self.fault("tuple-index") { 7 } else { 0 };
                return format!("({}, {}).{}", a, b, idx);
            }
            5 if !matches!(t, Ty::Lambda(..)) => {
                // lambda call
                let p = self.prim();
                let x = self.fresh("p");
                self.scopes.push(vec![Var { name: x.clone(), ty: p.clone(), mutable: false }]);
                let saved = std::mem::replace(&mut self.ret, t.clone());
                let saved_loop = std::mem::replace(&mut self.in_loop, 0);
                let body = self.expr(t, d);
                self.in_loop = saved_loop;
                self.ret = saved;
                self.scopes.pop();
                let a = self.args(&[p.clone()], d);
                return format!("(|{}: {}|: {} {{ {} }})({})", x, p.show(), self.ty_text(t), body, a);
            }
            6 => {
                // generic identity function, if declared
                if self.fns.iter().any(|f| f.name == "id") {
                    let a = self.expr(t, d);
                    return match self.r.below(4) {
                        0 => format!("id[{}]({})", self.ty_text(t), a),
                        1 if self.fault("bad-type-args") => format!("id[{}, Int64]({})", t.show(), a),
                        _ => format!("id({})", a),
                    };
                }
            }
            7 => {
                // Option round trip
                let a = self.expr(t, d);
                return format!("Some[{}]({}).get_or_panic()", self.ty_text(t), a);
            }
            8 => {
                // field of a record
                let cands: Vec<(Record, usize)> = self
                    .records
                    .iter()
                    .filter(|r| r.tparams.is_empty())
                    .flat_map(|r| r.fields.iter().enumerate().filter(|(_, f)| &f.1 == t).map(move |(i, _)| (r.clone(), i)))
                    .collect();
                if !cands.is_empty() {
                    let (rec, i) = self.r.pickv(&cands).clone();
                    let obj = self.construct(&rec, &[], d);
                    let fname = if self.fault("unknown-field") {
                        "nofield".to_string()
                    } else if rec.named {
                        rec.fields[i].0.clone()
                    } else {
                        format!("{}", i)
                    };
                    return format!("{}.{}", obj, fname);
                }
            }
            9 => {
                // method call on a record
                let cands: Vec<(String, FnDef)> = self.methods.iter().filter(|(_, m)| &m.ret == t).cloned().collect();
                if !cands.is_empty() {
                    let (rn, m) = self.r.pickv(&cands).clone();
                    if let Some(rec) = self.records.iter().find(|r| r.name == rn && r.tparams.is_empty()).cloned() {
                        let obj = self.construct(&rec, &[], d);
                        let a = self.args(&m.params, d);
                        let mn = if self.fault("unknown-method") { "nomethod".to_string() } else { m.name.clone() };
                        return format!("{}.{}({})", obj, mn, a);
                    }
                }
            }
            _ => {}
        }
        // type-directed producers
        match t {
            Ty::UInt8 => match self.r.below(3) {
                0 => format!("{}.to_uint8()", self.expr(&Ty::Int64, d)),
                _ => self.atom(t),
            },
            Ty::Int64 | Ty::Int32 | Ty::Float64 => {
                let op = if *t == Ty::Float64 { self.r.pick(&["+", "-", "*", "/"]) } else { self.r.pick(&["+", "-", "*", "/", "%"]) };
                match self.r.below(7) {
                    0 => self.atom(t),
                    1 => format!("(-{})", self.expr(t, d)),
                    2 if *t == Ty::Int64 => {
                        let s = self.expr(&Ty::Str, d);
                        format!("{}.size()", s)
                    }
                    3 if *t == Ty::Int64 => {
                        let x = self.expr(&Ty::Int32, d);
                        format!("{}.to_int64()", x)
                    }
                    4 if *t == Ty::Int64 || *t == Ty::Int32 => {
                        let sh = self.r.pick(&["<<", ">>", ">>>"]);
                        format!("({} {} {})", self.expr(t, d), sh, self.expr(&Ty::Int32, 0))
                    }
                    5 if *t == Ty::Int64 || *t == Ty::Int32 => {
                        let sh = self.r.pick(&["&", "|", "^"]);
                        format!("({} {} {})", self.expr(t, d), sh, self.expr(t, d))
                    }
                    _ => format!("({} {} {})", self.expr(t, d), op, self.expr(t, d)),
                }
            }
            Ty::Bool => match self.r.below(8) {
                0 => self.atom(t),
                1 => format!("(!{})", self.expr(t, d)),
                2 => format!("({} && {})", self.expr(t, d), self.expr(t, d)),
                3 => format!("({} || {})", self.expr(t, d), self.expr(t, d)),
                4 => {
                    let n = self.prim();
                    let op = if n == Ty::Bool { self.r.pick(&["==", "!="]) } else { self.r.pick(&["==", "!=", "<", "<=", ">", ">="]) };
                    format!("({} {} {})", self.expr(&n, d), op, self.expr(&n, d))
                }
                5 => {
                    // `is` pattern test
                    let inner = self.prim();
                    let o = self.expr(&Ty::Opt(Box::new(inner.clone())), d);
                    let x = self.fresh("b");
                    match self.r.below(3) {
                        0 => format!("({} is Some(_))", o),
                        1 => format!("({} is None)", o),
                        _ => {
                            self.scopes.push(vec![Var { name: x.clone(), ty: inner.clone(), mutable: false }]);
                            let cond = self.expr(&Ty::Bool, 0);
                            self.scopes.pop();
                            format!("({} is Some({}) && {})", o, x, cond)
                        }
                    }
                }
                6 => {
                    if !self.records.is_empty() {
                        let rec = self.r.pickv(&self.records.clone()).clone();
                        if rec.is_class && rec.tparams.is_empty() {
                            let a = self.construct(&rec, &[], d);
                            let b = self.construct(&rec, &[], d);
                            return format!("({} === {})", a, b);
                        }
                    }
                    self.atom(t)
                }
                _ => {
                    let v = self.expr(&Ty::Vec(Box::new(Ty::Int64)), d);
                    format!("{}.is_empty()", v)
                }
            },
            Ty::Str => match self.r.below(5) {
                0 => self.atom(t),
                1 => {
                    let n = self.prim();
                    let inner = self.expr(&n, d);
                    if self.fault("template-unclosed") {
                        return format!("\"v=${{{}\"", inner);
                    }
                    format!("\"v=${{{}}}!\"", inner)
                }
                2 => format!("({} + {})", self.expr(t, d), self.expr(t, d)),
                3 => {
                    let n = self.r.pickv(&[Ty::Int64, Ty::Bool, Ty::Float64]).clone();
                    format!("{}.to_string()", self.expr(&n, d))
                }
                _ => format!("\"${{{}}}${{\"in${{{}}}\"}}\"", self.expr(&Ty::Int64, d), self.expr(&Ty::Bool, 0)),
            },
            Ty::Char => self.atom(t),
            Ty::Unit => "()".to_string(),
            Ty::Tuple(ts) => {
                let parts: Vec<String> = ts.clone().iter().map(|x| self.expr(x, d)).collect();
                if self.fault("tuple-arity") {
                    return format!("({}, 1)", parts.join(", "));
                }
                if parts.len() == 1 {
                    format!("({},)", parts[0])
                } else {
                    format!("({})", parts.join(", "))
                }
            }
            Ty::Opt(inner) => {
                let inner = (**inner).clone();
                match self.r.below(4) {
                    0 => format!("None[{}]", self.ty_text(&inner)),
                    1 => format!("Some[{}]({})", self.ty_text(&inner), self.expr(&inner, d)),
                    2 if self.fault("untyped-none") => "None".to_string(),
                    _ => format!("Some({})", self.expr(&inner, d)),
                }
            }
            Ty::Vec(inner) => {
                let inner = (**inner).clone();
                let n = self.r.below(3) as usize;
                let parts: Vec<String> = (0..n).map(|_| self.expr(&inner, d)).collect();
                format!("Vec[{}]::new({})", self.ty_text(&inner), parts.join(", "))
            }
            Ty::Array(inner) => {
                let inner = (**inner).clone();
                let n = self.r.below(3) as usize;
                let parts: Vec<String> = (0..n).map(|_| self.expr(&inner, d)).collect();
                match self.r.below(4) {
                    0 if n > 0 && self.fault("array-literal") => format!("[{}]", parts.join(", ")),
                    _ => format!("Array[{}]::new({})", self.ty_text(&inner), parts.join(", ")),
                }
            }
            Ty::Lambda(ps, ret) => {
                let ps = ps.clone();
                let ret = (**ret).clone();
                let mut names = Vec::new();
                let mut scope = Vec::new();
                for p in &ps {
                    let x = self.fresh("a");
                    names.push(format!("{}: {}", x, p.show()));
                    scope.push(Var { name: x, ty: p.clone(), mutable: false });
                }
                if self.fault("lambda-arity") {
                    names.push("extra: Int64".to_string());
                }
                self.scopes.push(scope);
                let saved = std::mem::replace(&mut self.ret, ret.clone());
                let saved_loop = std::mem::replace(&mut self.in_loop, 0);
                let body = self.expr(&ret, d);
                self.in_loop = saved_loop;
                self.ret = saved;
                self.scopes.pop();
                format!("(|{}|: {} {{ {} }})", names.join(", "), self.ty_text(&ret), body)
            }
            Ty::Named(n, targs) => {
                let n = n.clone();
                let targs = targs.clone();
                if let Some(rec) = self.records.iter().find(|r| r.name == n).cloned() {
                    return self.construct(&rec, &targs, d);
                }
                if let Some(e) = self.enums.iter().find(|e| e.name == n).cloned() {
                    let (vn, vargs) = self.r.pickv(&e.variants).clone();
                    let vn = if self.fault("unknown-variant") { "Nope".to_string() } else { vn };
                    if vargs.is_empty() && !self.fault("variant-args") {
                        return format!("{}::{}", e.name, vn);
                    }
                    let a = self.args(&vargs, d);
                    return format!("{}::{}({})", e.name, vn, a);
                }
                if let Some((_, target)) = self.aliases.iter().find(|a| a.0 == n).cloned() {
                    return self.expr(&target, d);
                }
                "unknownThing()".to_string()
            }
            Ty::Param(_) => {
                let vs = self.vars_of(t);
                if !vs.is_empty() {
                    self.r.pickv(&vs).name.clone()
                } else {
                    "std::unreachable()".to_string()
                }
            }
        }
    }

    fn atom(&mut self, t: &Ty) -> String {
        match t {
            Ty::Int64 | Ty::Int32 | Ty::UInt8 | Ty::Bool | Ty::Str | Ty::Float64 | Ty::Char | Ty::Unit => {
                let cs: Vec<String> = self
                    .consts
                    .iter()
                    .filter(|c| &c.1 == t)
                    .map(|c| c.0.clone())
                    .chain(self.globals.iter().filter(|g| &g.1 == t).map(|g| g.0.clone()))
                    .collect();
                if !cs.is_empty() && self.r.chance(1, 4) {
                    return self.r.pickv(&cs).clone();
                }
                self.literal(t)
            }
            _ => self.expr_of(t, 1),
        }
    }

    fn construct(&mut self, rec: &Record, targs: &[Ty], depth: usize) -> String {
        let d = depth.saturating_sub(1);
        let subst = |t: &Ty| -> Ty {
            if let Ty::Param(p) = t {
                if let Some(i) = rec.tparams.iter().position(|x| x == p) {
                    if let Some(a) = targs.get(i) {
                        return a.clone();
                    }
                    return Ty::Int64;
                }
            }
            t.clone()
        };
        let mut field_tys: Vec<(String, Ty)> = rec.fields.iter().map(|(n, t)| (n.clone(), subst(t))).collect();
        if self.fault("ctor-arity") {
            if !field_tys.is_empty() && self.r.chance(1, 2) {
                field_tys.pop();
            } else {
                field_tys.push(("extra".to_string(), Ty::Int64));
            }
        }
        let named = rec.named && !self.fault("ctor-positional");
        let parts: Vec<String> = field_tys
            .iter()
            .map(|(n, t)| {
                let e = self.expr(t, d);
                if named {
                    format!("{} = {}", n, e)
                } else {
                    e
                }
            })
            .collect();
        let ta = if !rec.tparams.is_empty() && (self.r.chance(1, 2) || targs.is_empty()) {
            let shown: Vec<String> = rec.tparams.iter().enumerate().map(|(i, _)| targs.get(i).cloned().unwrap_or(Ty::Int64).show()).collect();
            format!("[{}]", shown.join(", "))
        } else {
            String::new()
        };
        format!("{}{}({})", rec.name, ta, parts.join(", "))
    }

    // ------------------------------------------------------------------ patterns / match

    fn match_expr(&mut self, t: &Ty, d: usize) -> String {
        let mut s = String::new();
        match self.r.below(4) {
            0 if !self.enums.is_empty() => {
                let e = self.r.pickv(&self.enums.clone()).clone();
                let scrut = self.expr(&Ty::Named(e.name.clone(), vec![]), d);
                s.push_str(&format!("match {} {{ ", scrut));
                let mut variants = e.variants.clone();
                if self.fault("non-exhaustive") && variants.len() > 1 {
                    variants.pop();
                }
                if self.fault("duplicate-arm") {
                    let v = variants[0].clone();
                    variants.push(v);
                }
                for (vn, vargs) in &variants {
                    let mut scope = Vec::new();
                    let mut pats = Vec::new();
                    for a in vargs {
                        match self.r.below(4) {
                            0 => pats.push("_".to_string()),
                            1 if *a == Ty::Int64 => pats.push("1".to_string()),
                            _ => {
                                let x = self.fresh("m");
                                pats.push(if self.r.chance(1, 6) { format!("mut {}", x) } else { x.clone() });
                                scope.push(Var { name: x, ty: a.clone(), mutable: false });
                            }
                        }
                    }
                    if self.fault("pattern-arity") {
                        pats.push("_".to_string());
                    }
                    if pats.len() > 1 && self.fault("pattern-rest") {
                        let i = self.r.below(pats.len() as u64) as usize;
                        pats[i] = "..".to_string();
                    }
                    self.scopes.push(scope);
                    let guard = if self.r.chance(1, 8) { format!(" if {}", self.expr(&Ty::Bool, 0)) } else { String::new() };
                    let body = self.expr(t, d);
                    self.scopes.pop();
                    let p = if pats.is_empty() { format!("{}::{}", e.name, vn) } else { format!("{}::{}({})", e.name, vn, pats.join(", ")) };
                    s.push_str(&format!("{}{} => {}, ", p, guard, body));
                }
                // literal sub-patterns and guards make the arms above partial: close with a wildcard most of the time
                if self.r.chance(3, 4) {
                    s.push_str(&format!("_ => {}, ", self.expr(t, 0)));
                }
                s.push('}');
            }
            1 => {
                let scrut = self.expr(&Ty::Bool, d);
                let a = self.expr(t, d);
                let b = self.expr(t, d);
                if self.fault("non-exhaustive") {
                    s = format!("match {} {{ true => {} }}", scrut, a);
                } else {
                    s = format!("match {} {{ true => {}, false => {} }}", scrut, a, b);
                }
            }
            2 => {
                let inner = self.prim();
                let scrut = self.expr(&Ty::Opt(Box::new(inner.clone())), d);
                let x = self.fresh("o");
                self.scopes.push(vec![Var { name: x.clone(), ty: inner, mutable: false }]);
                let a = self.expr(t, d);
                self.scopes.pop();
                let b = self.expr(t, d);
                s = format!("match {} {{ Some({}) => {}, None => {} }}", scrut, x, a, b);
            }
            _ => {
                let tt = Ty::Tuple(vec![Ty::Int64, Ty::Bool]);
                let scrut = self.expr(&tt, d);
                let a = self.expr(t, d);
                let b = self.expr(t, d);
                let c = self.expr(t, 0);
                let first = if self.fault("pattern-rest") { "(.., true)" } else { "(1 | 2, true)" };
                s = format!("match {} {{ {} => {}, (_, false) => {}, _ => {} }}", scrut, first, a, b, c);
            }
        }
        format!("({})", s)
    }

    // ------------------------------------------------------------------ statements

    fn block(&mut self, t: &Ty, depth: usize, nstmts: usize) -> String {
        self.scopes.push(Vec::new());
        let mut s = String::from("{\n");
        for _ in 0..nstmts {
            let st = self.stmt(depth);
            s.push_str("    ");
            s.push_str(&st);
            s.push('\n');
        }
        if *t != Ty::Unit {
            if self.fault("missing-result") {
                // nothing
            } else if self.r.chance(1, 3) {
                let e = self.expr(t, depth);
                s.push_str(&format!("    return {};\n", e));
            } else {
                let e = self.expr(t, depth);
                s.push_str(&format!("    {}\n", e));
            }
        }
        s.push_str("}\n");
        self.scopes.pop();
        s
    }

    fn stmt(&mut self, depth: usize) -> String {
        let d = depth.saturating_sub(1);
        match self.r.below(14) {
            0 | 1 | 2 => {
                let t = self.ty(2);
                let x = self.fresh("v");
                let e = self.expr(&t, d);
                let mutable = self.r.chance(1, 3);
                let ann = if self.r.chance(1, 2) { format!(": {}", self.ty_text(&t)) } else { String::new() };
                let name = if self.fault("shadow") && !self.all_vars().is_empty() { self.r.pickv(&self.all_vars()).name.clone() } else { x };
                self.scopes.last_mut().unwrap().push(Var { name: name.clone(), ty: t, mutable });
                let semi = if self.fault("missing-semicolon") { "" } else { ";" };
                format!("let {}{}{} = {}{}", if mutable { "mut " } else { "" }, name, ann, e, semi)
            }
            3 => {
                // assignment
                let vs: Vec<Var> = self.all_vars().into_iter().filter(|v| v.mutable || false).collect();
                let all = self.all_vars();
                if self.fault("assign-immutable") && !all.is_empty() {
                    let v = self.r.pickv(&all).clone();
                    return format!("{} = {};", v.name, self.expr(&v.ty, d));
                }
                if vs.is_empty() {
                    return format!("assert({});", self.expr(&Ty::Bool, d));
                }
                let v = self.r.pickv(&vs).clone();
                let op = if matches!(v.ty, Ty::Int64 | Ty::Int32) && self.r.chance(1, 3) { self.r.pick(&["+=", "-=", "*=", "|=", "<<="]) } else { "=" };
                format!("{} {} {};", v.name, op, self.expr(&v.ty, d))
            }
            4 => {
                let c = self.expr(&Ty::Bool, d);
                self.in_loop += 1;
                let nst = 1 + self.r.below(2) as usize;
                let b = self.block(&Ty::Unit, d, nst);
                self.in_loop -= 1;
                format!("while {} {}", c, b)
            }
            5 => {
                let x = self.fresh("i");
                let hi = self.expr(&Ty::Int64, 0);
                self.scopes.push(vec![Var { name: x.clone(), ty: Ty::Int64, mutable: false }]);
                self.in_loop += 1;
                let nst = 1 + self.r.below(2) as usize;
                let b = self.block(&Ty::Unit, d, nst);
                self.in_loop -= 1;
                self.scopes.pop();
                if self.fault("for-non-iterable") {
                    return format!("for {} in {} {}", x, hi, b);
                }
                if self.r.chance(1, 2) {
                    format!("for {} in std::range(0, {}) {}", x, hi, b)
                } else {
                    let v = self.expr(&Ty::Vec(Box::new(Ty::Int64)), d);
                    format!("for {} in {} {}", x, v, b)
                }
            }
            6 => {
                let c = self.expr(&Ty::Bool, d);
                let a = self.block(&Ty::Unit, d, 1);
                if self.r.chance(1, 2) {
                    let b = self.block(&Ty::Unit, d, 1);
                    format!("if {} {} else {}", c, a.trim_end(), b)
                } else {
                    format!("if {} {}", c, a)
                }
            }
            7 => {
                if self.in_loop > 0 || self.fault("break-outside-loop") {
                    (*self.r.pick(&["break;", "continue;"])).to_string()
                } else {
                    format!("assert({});", self.expr(&Ty::Bool, d))
                }
            }
            8 => {
                // early return
                let r = self.ret.clone();
                let c = self.expr(&Ty::Bool, d);
                if r == Ty::Unit {
                    if self.fault("return-value-in-unit") {
                        return format!("if {} {{ return 1; }}", c);
                    }
                    format!("if {} {{ return; }}", c)
                } else {
                    if self.fault("return-missing-value") {
                        return format!("if {} {{ return; }}", c);
                    }
                    format!("if {} {{ return {}; }}", c, self.expr(&r, d))
                }
            }
            9 => {
                // vector ops
                let inner = self.prim();
                let vt = Ty::Vec(Box::new(inner.clone()));
                let vs = self.vars_of(&vt);
                if vs.is_empty() {
                    let x = self.fresh("vec");
                    self.scopes.last_mut().unwrap().push(Var { name: x.clone(), ty: vt, mutable: false });
                    return format!("let {} = Vec[{}]::new();", x, inner.show());
                }
                let v = self.r.pickv(&vs).name.clone();
                match self.r.below(3) {
                    0 => format!("{}.push({});", v, self.expr(&inner, d)),
                    1 => format!("{}({}) = {};", v, self.expr(&Ty::Int64, 0), self.expr(&inner, d)),
                    _ => format!("assert({}.size() >= 0);", v),
                }
            }
            10 => {
                // destructuring let
                let a = self.prim();
                let b = self.prim();
                let (x, y) = (self.fresh("d"), self.fresh("d"));
                let e = self.expr(&Ty::Tuple(vec![a.clone(), b.clone()]), d);
                let third = if self.fault("pattern-arity") { ", _" } else { "" };
                let sc = self.scopes.last_mut().unwrap();
                sc.push(Var { name: x.clone(), ty: a, mutable: false });
                sc.push(Var { name: y.clone(), ty: b, mutable: false });
                format!("let ({}, {}{}) = {};", x, y, third, e)
            }
            11 => {
                let t = self.ty(1);
                format!("{};", self.expr(&t, d))
            }
            12 => format!("println({});", self.expr(&Ty::Str, d)),
            _ => {
                // field assignment on a class
                let cands: Vec<Record> = self.records.iter().filter(|r| r.is_class && r.named && r.tparams.is_empty() && !r.fields.is_empty()).cloned().collect();
                if cands.is_empty() {
                    return format!("assert({});", self.expr(&Ty::Bool, d));
                }
                let rec = self.r.pickv(&cands).clone();
                let x = self.fresh("obj");
                let (fname, fty) = self.r.pickv(&rec.fields).clone();
                let obj = self.construct(&rec, &[], d);
                let val = self.expr(&fty, d);
                self.scopes.last_mut().unwrap().push(Var { name: x.clone(), ty: Ty::Named(rec.name.clone(), vec![]), mutable: false });
                format!("let {} = {}; {}.{} = {};", x, obj, x, fname, val)
            }
        }
    }

    // ------------------------------------------------------------------ items

    fn fn_item(&mut self, name: &str, tparams: Vec<String>, params: Vec<Ty>, ret: Ty, this: Option<Ty>, is_static: bool, body: bool) -> String {
        let mut scope = Vec::new();
        let mut ptexts = Vec::new();
        self.tparams = tparams.clone();
        for p in &params {
            let x = self.fresh("p");
            ptexts.push(format!("{}: {}", x, self.ty_text(p)));
            scope.push(Var { name: x, ty: p.clone(), mutable: false });
        }
        if self.fault("duplicate-param") && !ptexts.is_empty() {
            let p = ptexts[0].clone();
            ptexts.push(p);
        }
        if let Some(t) = &this {
            if !is_static {
                scope.push(Var { name: "self".to_string(), ty: t.clone(), mutable: false });
            }
        }
        let tp = if tparams.is_empty() {
            String::new()
        } else {
            let bound = if self.fault("unknown-bound") { ": NoSuchTrait" } else if self.r.chance(1, 4) { ": std::traits::Default" } else { "" };
            let mut names: Vec<String> = tparams.iter().map(|t| format!("{}{}", t, bound)).collect();
            if self.fault("duplicate-type-param") {
                names.push(tparams[0].clone());
            }
            format!("[{}]", names.join(", "))
        };
        let rt = if ret == Ty::Unit { String::new() } else { format!(": {}", self.ty_text(&ret)) };
        let head = format!("{}fn {}{}({}){}", if is_static { "static " } else { "" }, name, tp, ptexts.join(", "), rt);
        if !body {
            self.tparams.clear();
            return format!("{};\n", head);
        }
        self.scopes.push(scope);
        self.ret = ret.clone();
        let n = self.r.below(4) as usize;
        let depth = 1 + self.r.below(self.max_depth as u64) as usize;
        let b = self.block(&ret, depth, n);
        self.scopes.pop();
        self.tparams.clear();
        format!("{} {}", head, b)
    }

    fn record_item(&mut self) -> String {
        let is_class = self.r.chance(1, 2);
        let base = self.r.pick(TYPE_NAMES);
        let mut name = self.fresh(base);
        if self.fault("duplicate-definition") && !self.records.is_empty() {
            name = self.r.pickv(&self.records).name.clone();
        }
        let tparams: Vec<String> = if self.r.chance(1, 4) { vec!["T".to_string()] } else { vec![] };
        self.tparams = tparams.clone();
        let named = self.r.chance(2, 3);
        let nf = self.r.below(4) as usize;
        let mut fields = Vec::new();
        for i in 0..nf {
            let t = self.ty(2);
            fields.push((format!("f{}", i), t));
        }
        if !tparams.is_empty() {
            fields.push((format!("f{}", nf), Ty::Param("T".to_string())));
        }
        let mut ftexts: Vec<String> = fields.iter().map(|(n, t)| if named { format!("{}: {}", n, self.ty_text(t)) } else { self.ty_text(t) }).collect();
        if named && !ftexts.is_empty() && self.fault("duplicate-field") {
            let f = ftexts[0].clone();
            ftexts.push(f);
        }
        if self.fault("recursive-struct") && !is_class {
            ftexts.push(if named { format!("again: {}", name) } else { name.clone() });
        }
        let tp = if tparams.is_empty() { String::new() } else { "[T]".to_string() };
        let kw = if is_class { "class" } else { "struct" };
        let body = if fields.is_empty() && ftexts.is_empty() && self.r.chance(1, 2) {
            String::new()
        } else if named {
            format!(" {{ {} }}", ftexts.join(", "))
        } else {
            format!("({})", ftexts.join(", "))
        };
        self.tparams.clear();
        self.records.push(Record { name: name.clone(), is_class, tparams, named, fields });
        let pubm = if self.r.chance(1, 5) { "pub " } else { "" };
        format!("{}{} {}{}{}\n", pubm, kw, name, tp, body)
    }

    fn enum_item(&mut self) -> String {
        let name = self.fresh("Kind");
        let nv = 1 + self.r.below(4) as usize;
        let mut variants = Vec::new();
        for i in 0..nv {
            let na = self.r.below(3) as usize;
            let args: Vec<Ty> = (0..na).map(|_| self.ty(1)).collect();
            variants.push((format!("V{}", i), args));
        }
        let mut vt: Vec<String> = variants
            .iter()
            .map(|(n, a)| if a.is_empty() { n.clone() } else { format!("{}({})", n, a.iter().map(|t| self.ty_text(t)).collect::<Vec<_>>().join(", ")) })
            .collect();
        if self.fault("duplicate-variant") {
            vt.push("V0".to_string());
        }
        if self.fault("empty-enum") {
            vt.clear();
        }
        self.enums.push(EnumDef { name: name.clone(), variants });
        format!("enum {} {{ {} }}\n", name, vt.join(", "))
    }

    fn trait_and_impl(&mut self) -> String {
        let tname = self.fresh("Shape");
        let nm = 1 + self.r.below(3) as usize;
        let mut methods = Vec::new();
        let mut statics: Vec<FnDef> = Vec::new();
        let mut done_targets: Vec<String> = Vec::new();
        let mut s = String::new();
        let has_assoc = self.r.chance(1, 4);
        let sup = if self.fault("super-trait-cycle") { format!(": {}", tname) } else { String::new() };
        s.push_str(&format!("trait {}{} {{\n", tname, sup));
        if has_assoc {
            s.push_str("    type Out;\n");
        }
        for i in 0..nm {
            let np = self.r.below(3) as usize;
            let params: Vec<Ty> = (0..np).map(|_| self.ty(1)).collect();
            let ret = if self.r.chance(1, 4) { Ty::Unit } else { self.ty(1) };
            let f = FnDef { name: format!("m{}_{}", i, tname.to_lowercase()), tparams: vec![], params: params.clone(), ret: ret.clone() };
            let is_static = self.r.chance(1, 5);
            let default_body = self.r.chance(1, 5);
            s.push_str("    ");
            s.push_str(&self.fn_item(&f.name, vec![], params, ret, Some(Ty::Param("Self".to_string())), is_static, default_body));
            if !is_static {
                methods.push(f);
            } else if !default_body {
                statics.push(f);
            }
        }
        if has_assoc {
            s.push_str("    fn out(): Self::Out;\n");
        }
        s.push_str("}\n");
        self.traits.push(TraitDef { name: tname.clone(), methods: methods.clone(), has_assoc });
        // impls for one or two records (or a primitive)
        let nimpl = 1 + self.r.below(2);
        for _ in 0..nimpl {
            let (target, this): (String, Ty) = if !self.records.is_empty() && self.r.chance(3, 4) {
                let cands: Vec<Record> = self.records.iter().filter(|r| r.tparams.is_empty()).cloned().collect();
                if cands.is_empty() {
                    ("Int64".to_string(), Ty::Int64)
                } else {
                    let rec = self.r.pickv(&cands).clone();
                    (rec.name.clone(), Ty::Named(rec.name, vec![]))
                }
            } else {
                let p = self.prim();
                (p.show(), p)
            };
            if done_targets.contains(&target) && !self.fault("overlapping-impl") {
                continue;
            }
            done_targets.push(target.clone());
            let target = if self.fault("impl-unknown-type") { "Missing".to_string() } else { target };
            let tn = if self.fault("impl-unknown-trait") { "NoTrait".to_string() } else { tname.clone() };
            s.push_str(&format!("impl {} for {} {{\n", tn, target));
            if has_assoc && !self.fault("impl-missing-assoc") {
                s.push_str(&format!("    type Out = {};\n", self.prim().show()));
            }
            let mut ms = methods.clone();
            if self.fault("impl-missing-method") && !ms.is_empty() {
                ms.pop();
            }
            for m in &ms {
                let mut params = m.params.clone();
                let mut ret = m.ret.clone();
                if self.fault("impl-signature-mismatch") {
                    if self.r.chance(1, 2) {
                        params.push(Ty::Int64);
                    } else {
                        ret = self.wrong_type(&ret);
                    }
                }
                s.push_str("    ");
                s.push_str(&self.fn_item(&m.name, vec![], params, ret, Some(this.clone()), false, true));
                if let Ty::Named(rn, _) = &this {
                    self.methods.push((rn.clone(), m.clone()));
                }
            }
            for m in &statics {
                s.push_str("    ");
                s.push_str(&self.fn_item(&m.name, vec![], m.params.clone(), m.ret.clone(), Some(this.clone()), true, true));
            }
            if self.fault("impl-extra-method") {
                s.push_str("    fn surplus(): Int64 { 1 }\n");
            }
            if has_assoc {
                s.push_str("    fn out(): Self::Out { std::unreachable() }\n");
            }
            s.push_str("}\n");
        }
        // a generic function bounded by the trait
        if !methods.is_empty() && self.r.chance(1, 2) {
            let m = methods[0].clone();
            let fname = self.fresh("use_shape");
            let call_args = {
                self.scopes.push(Vec::new());
                let a = self.args(&m.params, 1);
                self.scopes.pop();
                a
            };
            let rt = if m.ret == Ty::Unit { String::new() } else { format!(": {}", m.ret.show()) };
            s.push_str(&format!("fn {}[T: {}](x: T){} {{ x.{}({}) }}\n", fname, tname, rt, m.name, call_args));
        }
        s
    }

    fn extension_impl(&mut self) -> String {
        let cands: Vec<Record> = self.records.iter().filter(|r| r.tparams.is_empty()).cloned().collect();
        if cands.is_empty() {
            return String::new();
        }
        let rec = self.r.pickv(&cands).clone();
        let this = Ty::Named(rec.name.clone(), vec![]);
        let mut s = format!("impl {} {{\n", rec.name);
        let n = 1 + self.r.below(2) as usize;
        for _ in 0..n {
            let mut mname = self.fresh("ext");
            if self.fault("duplicate-method") {
                if let Some((_, m)) = self.methods.iter().find(|(r, _)| *r == rec.name) {
                    mname = m.name.clone();
                }
            }
            let np = self.r.below(3) as usize;
            let params: Vec<Ty> = (0..np).map(|_| self.ty(1)).collect();
            let ret = self.ty(1);
            let is_static = self.r.chance(1, 4);
            s.push_str("    ");
            s.push_str(&self.fn_item(&mname, vec![], params.clone(), ret.clone(), Some(this.clone()), is_static, true));
            if !is_static {
                self.methods.push((rec.name.clone(), FnDef { name: mname, tparams: vec![], params, ret }));
            }
        }
        s.push_str("}\n");
        s
    }

    fn misc_item(&mut self) -> String {
        match self.r.below(7) {
            0 => {
                let mut t = self.prim();
                if t == Ty::Str && !self.fault("const-string") {
                    t = Ty::Int64;
                }
                let n = self.fresh("LIMIT");
                let e = if self.fault("wrong-type") { let w = self.wrong_type(&t); self.literal(&w) } else { self.literal(&t) };
                self.consts.push((n.clone(), t.clone()));
                format!("const {}: {} = {};\n", n, self.ty_text(&t), e)
            }
            1 => {
                let t = self.prim();
                let n = self.fresh("g");
                let m = self.r.chance(1, 2);
                let e = self.literal(&t);
                self.globals.push((n.clone(), t.clone(), m));
                format!("let {}{}: {} = {};\n", if m { "mut " } else { "" }, n, self.ty_text(&t), e)
            }
            2 => {
                let n = self.fresh("Alias");
                if self.fault("alias-cycle") {
                    let m = self.fresh("Alias");
                    return match self.r.below(3) {
                        0 => format!("type {} = {};\n", n, n),
                        1 => format!("type {} = {};\ntype {} = {};\n", n, m, m, n),
                        _ => format!("type {} = Vec[{}];\ntype {} = ({}, Int64);\n", n, m, m, n),
                    };
                }
                let t = self.ty(2);
                self.aliases.push((n.clone(), t.clone()));
                format!("type {} = {};\n", n, self.ty_text(&t))
            }
            3 => {
                // module with a function, used from outside
                let m = self.fresh("inner");
                let f = self.fresh("helper");
                let private = self.fault("private-access");
                let s = format!("mod {} {{\n    {}fn {}(): Int64 {{ 1 }}\n}}\n", m, if private { "" } else { "pub " }, f);
                let user = self.fresh("via_mod");
                let import = match self.r.below(3) {
                    0 => format!("use package::{}::{};\nfn {}(): Int64 {{ {}() }}\n", m, f, user, f),
                    1 => format!("fn {}(): Int64 {{ {}::{}() }}\n", user, m, f),
                    _ => format!("use self::{}::{} as renamed_{};\nfn {}(): Int64 {{ renamed_{}() }}\n", m, f, f, user, f),
                };
                self.fns.push(FnDef { name: user, tparams: vec![], params: vec![], ret: Ty::Int64 });
                format!("{}{}", s, import)
            }
            4 => {
                let what = self.r.pick(&["std::collections::HashMap", "std::traits::Default", "std::traits::Iterator", "std::Vec", "std::collections::{HashSet, BitSet}"]);
                if self.fault("unknown-import") {
                    return "use std::no::such::thing;\n".to_string();
                }
                format!("use {};\n", what)
            }
            5 => self.extension_impl(),
            _ => {
                if self.fns.iter().any(|f| f.name == "id") {
                    return String::new();
                }
                self.fns.push(FnDef { name: "id".to_string(), tparams: vec!["T".to_string()], params: vec![Ty::Param("T".to_string())], ret: Ty::Param("T".to_string()) });
                "fn id[T](x: T): T { x }\n".to_string()
            }
        }
    }

    fn free_fn(&mut self) -> String {
        let mut name = self.fresh("f");
        if self.fault("duplicate-definition") && !self.fns.is_empty() {
            name = self.r.pickv(&self.fns).name.clone();
        }
        let generic = self.r.chance(1, 6);
        let tparams = if generic { vec!["T".to_string()] } else { vec![] };
        self.tparams = tparams.clone();
        let np = self.r.below(4) as usize;
        let mut params: Vec<Ty> = (0..np).map(|_| self.ty(2)).collect();
        if generic {
            params.push(Ty::Param("T".to_string()));
        }
        let ret = if self.r.chance(1, 4) { Ty::Unit } else if generic && self.r.chance(1, 2) { Ty::Param("T".to_string()) } else { self.ty(2) };
        let s = self.fn_item(&name, tparams.clone(), params.clone(), ret.clone(), None, false, true);
        // recursion allowed: registered after the body so calls inside use only earlier functions (no accidental infinite types)
        self.fns.push(FnDef { name, tparams, params, ret });
        s
    }

    fn deep_nest(&mut self) -> String {
        // deep nesting up to the bound, well-formed or cut off
        let n = 20 + self.r.below(180) as usize;
        let (o, c) = *self.r.pickv(&[("(", ")"), ("[", "]"), ("{ ", " }"), ("f(", ")"), ("(1, ", ")"), ("!", ""), ("-", ""), ("if true { ", " } else { 0 }"), ("|x: Int64|: Int64 { ", " }"), ("Some(", ")"), ("\"${", "}\""), ("x.", "y")]);
        let closes = if self.r.chance(1, 3) { self.r.below(n as u64) as usize } else { n };
        let mut s = String::from("fn deep(): Int64 { ");
        if self.r.chance(1, 2) {
            s.push_str("let v = ");
        }
        for _ in 0..n {
            s.push_str(o);
        }
        s.push('1');
        for _ in 0..closes {
            s.push_str(c);
        }
        s.push_str("; 0 }\n");
        self.faults.push("deep-nesting");
        s
    }

    fn deep_types(&mut self) -> String {
        let n = 10 + self.r.below(120) as usize;
        let (o, c) = *self.r.pickv(&[("Vec[", "]"), ("Option[", "]"), ("(", ", Int64)"), ("(): ", ""), ("(", "): Int64"), ("Array[", "]")]);
        let mut t = String::new();
        for _ in 0..n {
            t.push_str(o);
        }
        t.push_str("Int64");
        for _ in 0..n {
            t.push_str(c);
        }
        self.faults.push("deep-type");
        match self.r.below(3) {
            0 => format!("fn deep_ty(x: {}) {{}}\n", t),
            1 => format!("type Deep = {};\n", t),
            _ => format!("fn deep_pat(x: Int64) {{ match x {{ {}1{} => 1, _ => 2 }}; }}\n", "(".repeat(n), ")".repeat(n)),
        }
    }
}

/// One random program; returns (fault label, text).
pub fn program(r: &mut Rng) -> (String, String) {
    // a third of the programs are meant to be valid, the rest carry 1..n seeded faults
    let fault_rate = match r.below(6) {
        0 | 1 => 0,
        2 | 3 => 8,
        4 => 25,
        _ => 70,
    };
    let max_depth = 1 + r.below(4) as usize;
    let mut g = Gen {
        r,
        records: Vec::new(),
        enums: Vec::new(),
        fns: Vec::new(),
        traits: Vec::new(),
        methods: Vec::new(),
        consts: Vec::new(),
        globals: Vec::new(),
        aliases: Vec::new(),
        scopes: Vec::new(),
        tparams: Vec::new(),
        in_loop: 0,
        ret: Ty::Unit,
        counter: 0,
        fault_rate,
        faults: Vec::new(),
        max_depth,
    };
    let mut items: Vec<String> = Vec::new();
    let n_items = 2 + g.r.below(9) as usize;
    for _ in 0..n_items {
        let it = match g.r.below(16) {
            0 | 1 | 2 => g.record_item(),
            3 | 4 => g.enum_item(),
            5 | 6 => g.trait_and_impl(),
            7 | 8 | 9 => g.misc_item(),
            10 if g.fault_rate > 0 && g.r.chance(1, 3) => g.deep_nest(),
            11 if g.fault_rate > 0 && g.r.chance(1, 3) => g.deep_types(),
            _ => g.free_fn(),
        };
        items.push(it);
    }
    // main
    let with_main = !g.fault("no-main");
    if with_main {
        let n = 1 + g.r.below(5) as usize;
        g.ret = Ty::Unit;
        let d = g.max_depth;
        let b = g.block(&Ty::Unit, d, n);
        items.push(format!("fn main() {}", b));
    }
    // items may be declared in any order in Dora: shuffle sometimes
    if g.r.chance(1, 3) {
        for i in (1..items.len()).rev() {
            let j = g.r.below(i as u64 + 1) as usize;
            items.swap(i, j);
        }
    }
    let mut text = items.concat();
    if text.contains(".to_string()") {
        text = format!("use std::string::Stringable;\n{}", text);
    }
    // syntax slips on the finished text
    if g.fault("syntax-slip") {
        let toks: Vec<char> = text.chars().collect();
        if !toks.is_empty() {
            let i = g.r.below(toks.len() as u64) as usize;
            let mut t: String = toks[..i].iter().collect();
            match g.r.below(4) {
                0 => {}                      // truncate
                1 => t.push_str(&toks[i + 1..].iter().collect::<String>()), // delete a char
                2 => {
                    t.push_str(g.r.pick(&["}", "{", ")", "(", ";", ",", "\"", "=>", "::", "[", "]", "@", "..", "'"]));
                    t.push_str(&toks[i..].iter().collect::<String>());
                }
                _ => {
                    t.push_str(&toks[i..].iter().collect::<String>());
                    t.push_str(&toks[i..].iter().collect::<String>());
                }
            }
            text = t;
        }
    }
    let _ = g.traits.iter().map(|t| (t.name.len(), t.methods.len(), t.has_assoc)).count();
    let mut faults = g.faults.clone();
    faults.sort();
    faults.dedup();
    let label = if faults.is_empty() { "clean".to_string() } else { faults.join("+") };
    let label = if label.len() > 80 { format!("{}+more", &label[..60]) } else { label };
    (label, text)
}
