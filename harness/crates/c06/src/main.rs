//! C06 harness: drives the REAL front end (dora-parser + dora-frontend with the real stdlib sources) in-process.
//!   h_c06 gen <nfiles> <nmut> <nsoup> <ngram>     request file on stdout (every choice from VERIF_SEED)
//!   h_c06 run [file]                              answer requests, one response line per request line
//! requests (text as lower-case hex of its UTF-8 bytes, `-` = empty):
//!   sema <text> [limit_s] -> ok kinds=<k> warn=<w> diag=<id>:<count>,...      (kinds of the warnings)
//!                  | errors <n> in-range kinds=<k> warn=<w> noloc=<m> diag=<id>:<count>,... dump=<ok|EMPTY>
//!                  | errors <n> OUT-OF-RANGE <file>:<start>+<len>/<filelen> ...
//!                  | !flag <success> <nerrors>          (`check_program`'s flag != absence of errors)
//!                  | !panic <file>:<line> <first line of the message>
//!                  | !timeout
//!   dump <text>   -> dump <hex of the diagnostics text as `dora compile` prints it>
//!   parse <text>  -> ok | !panic <file>:<line> <msg>             (parser alone; used by the minimiser)
//!   min <text> [budget] -> min <site> <minimised text> <evaluations>   (token / line deletion while the same site panics)
//!                  | min - <text> 0                               (no panic on this text)
//! `<id>` of a diagnostic = FNV-1a-32 of the descriptor's message template (checks/c06.py maps it back to the
//! name of the static in dora-frontend/src/error/diagnostics.rs); `kinds` = number of distinct top-level item
//! kinds of the parsed program file.
//! A stack overflow / abort kills the process; checks/c06.py sees the missing answer, records `!abort` for that
//! request and restarts the harness on the rest.
use dora_frontend::sema::{Sema, SemaCreationParams};
use dora_parser::ast::{SyntaxElement, SyntaxNodeBase};
use dora_parser::{lex, Parser};
use hutil::{hex, unhex, Rng};
use std::cell::RefCell;
use std::collections::{BTreeMap, BTreeSet};
use std::io::{BufRead, Write};
use std::sync::mpsc;
use std::sync::Arc;
use std::time::Duration;

mod grammar;

const STACK: usize = 256 << 20;
const TIME_LIMIT_S: u64 = 20;

thread_local! {
    static PANIC_SITE: RefCell<String> = RefCell::new(String::new());
}

fn install_hook() {
    std::panic::set_hook(Box::new(|info| {
        let loc = info
            .location()
            .map(|l| {
                let f = l.file();
                let f = f.strip_prefix("/repo/").unwrap_or(f);
                format!("{}:{}", f, l.line())
            })
            .unwrap_or_else(|| "?:0".to_string());
        // generic syntax-tree accessors (dora-parser/src/ast.rs) are reached from many places: name the first
        // frame of the analysis as well (symbol names only; the harness is built without debug info)
        let loc = if loc.starts_with("dora-parser/src/ast.rs") {
            let bt = std::backtrace::Backtrace::force_capture().to_string();
            let frames: Vec<String> = bt
                .lines()
                .filter_map(|l| {
                    let t = l.trim();
                    let (n, sym) = t.split_once(": ")?;
                    n.parse::<u32>().ok()?;
                    Some(sym.to_string())
                })
                .filter(|s| s.starts_with("dora_frontend::") || s.starts_with("<dora_frontend::"))
                // skip the analysis' own generic accessors (`Sema::syntax`, `FctDefinition::ast`, ...)
                .filter(|s| !s.starts_with("dora_frontend::sema::Sema::") && !s.ends_with("::ast") && !s.ends_with("::syntax"))
                .map(|s| s.trim_start_matches("dora_frontend::").to_string())
                .take(2)
                .collect();
            let caller = if frames.is_empty() { None } else { Some(frames.join("<")) };
            match caller {
                Some(c) => {
                    let c: String = c.chars().map(|ch| if ch == ' ' { '_' } else { ch }).collect();
                    format!("{}@{}", loc, c)
                }
                None => loc,
            }
        } else if loc.starts_with("dora-parser/src/parser.rs") {
            // the parser's guards (`expect`, `assert`, the comma-list progress assertion) are shared by every grammar
            // routine: name the grammar routine that ran into the guard, so that a NEW way to trip an old guard is a
            // new finding
            let bt = std::backtrace::Backtrace::force_capture().to_string();
            let helpers = ["expect", "assert", "parse_comma_list_items", "parse_comma_list", "parse_list", "eat", "advance", "error", "report_error"];
            let frames: Vec<String> = bt
                .lines()
                .filter_map(|l| {
                    let t = l.trim();
                    let (n, sym) = t.split_once(": ")?;
                    n.parse::<u32>().ok()?;
                    Some(sym.to_string())
                })
                .filter_map(|s| s.strip_prefix("dora_parser::parser::Parser::").map(|x| x.to_string()))
                .map(|s| s.split("::").next().unwrap_or("").to_string())
                .filter(|s| !helpers.contains(&s.as_str()) && !s.is_empty())
                .take(1)
                .collect();
            match frames.first() {
                Some(c) => format!("{}@{}", loc, c),
                None => loc,
            }
        } else {
            loc
        };
        PANIC_SITE.with(|s| *s.borrow_mut() = loc);
    }));
}

/// Run a closure; a panic becomes `!panic <file:line> <first line of the message>`.
fn guarded<T>(f: impl FnOnce() -> T) -> Result<T, String> {
    match std::panic::catch_unwind(std::panic::AssertUnwindSafe(f)) {
        Ok(v) => Ok(v),
        Err(e) => {
            let msg = if let Some(s) = e.downcast_ref::<String>() {
                s.clone()
            } else if let Some(s) = e.downcast_ref::<&str>() {
                s.to_string()
            } else {
                "?".to_string()
            };
            let site = PANIC_SITE.with(|s| s.borrow().clone());
            let mut first = msg.lines().next().unwrap_or("").to_string();
            if first.len() > 160 {
                let mut cut = 160;
                while !first.is_char_boundary(cut) {
                    cut -= 1;
                }
                first.truncate(cut);
            }
            Err(format!("!panic {} {}", site, first))
        }
    }
}

fn fnv32(s: &str) -> u32 {
    let mut h: u32 = 0x811c9dc5;
    for b in s.bytes() {
        h ^= b as u32;
        h = h.wrapping_mul(0x01000193);
    }
    h
}

/// number of distinct kinds of top-level items of `text` (parser alone)
fn top_level_kinds(text: &str) -> usize {
    let (file, _errs) = Parser::from_shared_string(Arc::new(text.to_string())).parse();
    let root = file.root();
    let mut kinds = BTreeSet::new();
    for el in root.children_with_tokens() {
        if let SyntaxElement::Node(n) = el {
            kinds.insert(format!("{:?}", n.syntax_kind()));
        }
    }
    kinds.len()
}

fn sema_line(text: &str) -> String {
    let params = SemaCreationParams::new().set_program_content(text.to_string());
    let mut sa = Sema::new(params);
    let success = dora_frontend::check_program(&mut sa);
    let kinds = top_level_kinds(text);
    let (nerr, nwarn) = {
        let d = sa.diag.borrow();
        (d.errors().len(), d.warnings().len())
    };
    if success != (nerr == 0) {
        return format!("!flag {} {}", success, nerr);
    }
    // every diagnostic (errors and warnings) names a location inside the file it refers to
    let mut out_of_range: Vec<String> = Vec::new();
    let mut noloc = 0usize;
    let mut hist: BTreeMap<u32, usize> = BTreeMap::new();
    {
        let d = sa.diag.borrow();
        for (is_err, e) in d.errors().iter().map(|e| (true, e)).chain(d.warnings().iter().map(|e| (false, e))) {
            let _ = is_err;
            *hist.entry(fnv32(e.desc.message)).or_insert(0) += 1;
            match (e.file_id, e.span) {
                (Some(fid), Some(span)) => {
                    let file = sa.file(fid);
                    let len = file.content.len() as u64;
                    if span.start() as u64 + span.len() as u64 > len {
                        let name = file.path.file_name().map(|s| s.to_string_lossy().to_string()).unwrap_or_default();
                        out_of_range.push(format!("{}:{}+{}/{}", name, span.start(), span.len(), len));
                    }
                }
                (None, None) => noloc += 1,
                _ => out_of_range.push("half-location".to_string()),
            }
        }
    }
    let diag = hist.iter().map(|(k, v)| format!("{:08x}:{}", k, v)).collect::<Vec<_>>().join(",");
    let diag = if diag.is_empty() { "-".to_string() } else { diag };
    if nerr == 0 && out_of_range.is_empty() {
        return format!("ok kinds={} warn={} diag={}", kinds, nwarn, diag);
    }
    if !out_of_range.is_empty() {
        return format!("errors {} OUT-OF-RANGE {}", nerr, out_of_range.join(" "));
    }
    // the text the compile command prints (message formatting + line/column of every diagnostic)
    let dump = sa.diag.borrow_mut().dump_to_string(&sa, true);
    let dump_ok = dump.contains("error") && dump.lines().count() >= nerr;
    format!(
        "errors {} in-range kinds={} warn={} noloc={} diag={} dump={}",
        nerr,
        kinds,
        nwarn,
        noloc,
        diag,
        if dump_ok { "ok" } else { "EMPTY" }
    )
}

fn parse_only(text: &str) -> Result<(), String> {
    guarded(|| {
        let _ = Parser::from_shared_string(Arc::new(text.to_string())).parse();
    })
}

/// Runs `f` in a worker thread with a large stack and a time limit.
fn in_worker_limit(limit_s: u64, f: impl FnOnce() -> String + Send + 'static) -> String {
    let (tx, rx) = mpsc::channel();
    let h = std::thread::Builder::new().stack_size(STACK).spawn(move || {
        let r = match guarded(f) {
            Ok(s) => s,
            Err(s) => s,
        };
        let _ = tx.send(r);
    });
    let h = match h {
        Ok(h) => h,
        Err(_) => return "!nothread".to_string(),
    };
    match rx.recv_timeout(Duration::from_secs(limit_s)) {
        Ok(s) => {
            let _ = h.join();
            s
        }
        // the worker is abandoned (it keeps running until the process exits)
        Err(_) => "!timeout".to_string(),
    }
}

fn in_worker(f: impl FnOnce() -> String + Send + 'static) -> String {
    in_worker_limit(TIME_LIMIT_S, f)
}

fn sema_guarded(text: &str) -> String {
    let t = text.to_string();
    in_worker(move || sema_line(&t))
}

fn panic_site(resp: &str) -> Option<String> {
    if resp.starts_with("!panic ") {
        resp.split(' ').nth(1).map(|s| s.to_string())
    } else if resp.starts_with("!timeout") {
        Some("!timeout".to_string())
    } else {
        None
    }
}

// ------------------------------------------------------------------------------------------ minimiser

fn token_texts(text: &str) -> Vec<String> {
    let r = lex(text);
    let mut out = Vec::with_capacity(r.starts.len());
    for i in 0..r.starts.len() {
        let s = r.starts[i] as usize;
        let e = if i + 1 < r.starts.len() { r.starts[i + 1] as usize } else { text.len() };
        out.push(text[s..e].to_string());
    }
    out
}

/// ddmin over a list of pieces: delete chunks while `bad(joined)` holds
fn ddmin(mut pieces: Vec<String>, bad: &mut dyn FnMut(&str) -> bool, budget: &mut usize) -> Vec<String> {
    let mut chunk = (pieces.len() / 2).max(1);
    loop {
        let mut i = 0;
        let mut progress = false;
        while i < pieces.len() && *budget > 0 {
            let end = (i + chunk).min(pieces.len());
            let cand: Vec<String> = pieces[..i].iter().chain(pieces[end..].iter()).cloned().collect();
            *budget -= 1;
            if bad(&cand.concat()) {
                pieces = cand;
                progress = true;
            } else {
                i = end;
            }
        }
        if *budget == 0 {
            break;
        }
        if chunk == 1 {
            if !progress {
                break;
            }
        } else {
            chunk = (chunk / 2).max(1);
        }
    }
    pieces
}

fn min_line(text: &str, sema_budget: usize) -> String {
    // parser-only panics are minimised with the parser alone (fast); everything else with the whole front end
    let p = match parse_only(text) {
        Ok(()) => None,
        Err(r) => panic_site(&r),
    };
    let parser_stage = p.is_some();
    let site = match p {
        Some(s) => Some(s),
        None => panic_site(&sema_guarded(text)),
    };
    let site = match site {
        Some(s) => s,
        None => return format!("min - {} 0", hex(text.as_bytes())),
    };
    let mut evals = 0usize;
    let mut bad = |t: &str| -> bool {
        evals += 1;
        if parser_stage {
            match parse_only(t) {
                Ok(()) => false,
                Err(r) => panic_site(&r).as_deref() == Some(site.as_str()),
            }
        } else {
            panic_site(&sema_guarded(t)).as_deref() == Some(site.as_str())
        }
    };
    let mut budget: usize = if parser_stage { 20000 } else { sema_budget };
    // 1. lines, 2. tokens, 3. tokens again after re-lexing (deleting trivia may glue tokens), 4. characters of small rests
    let lines: Vec<String> = text.split_inclusive('\n').map(|s| s.to_string()).collect();
    let cur = ddmin(lines, &mut bad, &mut budget).concat();
    let cur = ddmin(token_texts(&cur), &mut bad, &mut budget).concat();
    let mut cur = ddmin(token_texts(&cur), &mut bad, &mut budget).concat();
    if cur.len() <= 200 {
        let chars: Vec<String> = cur.chars().map(|c| c.to_string()).collect();
        cur = ddmin(chars, &mut bad, &mut budget).concat();
    }
    format!("min {} {} {}", site, hex(cur.as_bytes()), evals)
}

// ------------------------------------------------------------------------------------------ serve

fn respond(line: &str) -> String {
    let p: Vec<&str> = line.split(' ').collect();
    if p.len() < 2 {
        return "!badreq".to_string();
    }
    let text = match String::from_utf8(unhex(p[1])) {
        Ok(t) => t,
        Err(_) => return "!notutf8".to_string(),
    };
    match p[0] {
        "sema" => match p.get(2).and_then(|s| s.parse::<u64>().ok()) {
            // explicit time limit: used to re-examine a `!timeout` answer on a loaded machine
            Some(limit) => {
                let t = text.clone();
                in_worker_limit(limit, move || sema_line(&t))
            }
            None => sema_guarded(&text),
        },
        "parse" => {
            let t = text.clone();
            in_worker(move || match parse_only(&t) {
                Ok(()) => "ok".to_string(),
                Err(e) => e,
            })
        }
        "min" => min_line(&text, p.get(2).and_then(|s| s.parse().ok()).unwrap_or(300)),
        "dump" => {
            // the diagnostics as the compile command prints them (for replay files and for tuning the generators)
            let t = text.clone();
            in_worker(move || {
                let params = SemaCreationParams::new().set_program_content(t);
                let mut sa = Sema::new(params);
                dora_frontend::check_program(&mut sa);
                let d = sa.diag.borrow_mut().dump_to_string(&sa, false);
                format!("dump {}", hex(d.as_bytes()))
            })
        }
        _ => "!badreq".to_string(),
    }
}

fn serve(path: Option<String>) {
    let input: Box<dyn BufRead> = match path {
        Some(p) => Box::new(std::io::BufReader::new(std::fs::File::open(p).expect("open request file"))),
        None => Box::new(std::io::BufReader::new(std::io::stdin())),
    };
    let stdout = std::io::stdout();
    let mut out = stdout.lock();
    for line in input.lines() {
        let line = line.expect("read line");
        let l = line.trim_end_matches(['\n', '\r']);
        if l.is_empty() || l.starts_with('#') {
            continue;
        }
        // unbuffered on purpose: if the process dies on a request, all earlier answers are out
        writeln!(out, "{}", respond(l)).unwrap();
        out.flush().unwrap();
    }
}

// ------------------------------------------------------------------------------------------ generators
// (families 1-4 follow harness/crates/c16: repository files, token-level mutants, token soups; family 5 is the
// grammar-directed generator of grammar.rs)

fn dora_files() -> Vec<String> {
    fn rec(dir: &std::path::Path, out: &mut Vec<String>) {
        let mut entries: Vec<_> = match std::fs::read_dir(dir) {
            Ok(r) => r.filter_map(|e| e.ok()).collect(),
            Err(_) => return,
        };
        entries.sort_by_key(|e| e.file_name());
        for e in entries {
            let p = e.path();
            let name = e.file_name().to_string_lossy().to_string();
            if p.is_dir() {
                if name == "target" || name.starts_with('.') {
                    continue;
                }
                rec(&p, out);
            } else if name.ends_with(".dora") {
                out.push(p.to_string_lossy().to_string());
            }
        }
    }
    let mut out = Vec::new();
    let root = std::env::var("VERIF_REPO").unwrap_or_else(|_| "/repo".to_string());
    for sub in ["pkgs", "test", "tests", "bench"] {
        rec(&std::path::Path::new(&root).join(sub), &mut out);
    }
    out
}

const KEYWORDS: &[&str] = &[
    "true", "false", "class", "enum", "struct", "trait", "impl", "mod", "use", "package", "extern", "fn", "let", "mut",
    "const", "return", "if", "else", "while", "for", "in", "break", "continue", "match", "self", "super", "pub",
    "static", "mutating", "as", "is", "type", "where", "Self", "ref", "_",
];
const OPERATORS: &[&str] = &[
    "+", "-", "*", "/", "%", "!", "|", "&", "^", "&&", "||", "==", "!=", "===", "!==", "<", "<=", ">", ">=", "+=", "-=",
    "*=", "/=", "%=", "|=", "&=", "^=", ">>=", ">>>=", "<<=", ">>", ">>>", "<<", "=", ",", ";", ".", "..", "...", ":",
    "::", "@", "->", "=>", "(", ")", "[", "]", "{", "}",
];
const LITERALS: &[&str] = &[
    "x", "foo1", "Bar", "a_b", "0", "12", "0x1F", "0b101", "1_000", "1i32", "0xffu8", "0b", "0x", "1.5", "2.0e10",
    "3.0E-2f32", "1.", "1.e5", "7.0e", "\"s\"", "\"a\\\"b\"", "\"é世\"", "\"\"", "\"x${", "}y\"", "}${", "\"${\"${1}\"}\"",
    "\"a${b}c\"", "\"", "\"\\", "'a'", "'\\n'", "'\\''", "'", "'ab", "'\\", "'世'", "Int64", "Int32", "Bool", "String",
    "Float64", "Vec", "Array", "Option", "Some", "None", "main", "f", "T", "std", "println", "unreachable", "9223372036854775808",
    "256u8", "1e400", "0x1_0000_0000_0000_0000",
];
const TRIVIA: &[&str] = &[
    " ", "  ", "\t", "\n", "\r\n", "\r", "\n\n", "\u{a0}", "\u{2028}", "\u{3000}", "//c\n", "// é世😀\n", "//", "/* c */",
    "/* a\nb */", "/*", "/**/", "/* 世 */",
];
const UNKNOWN: &[&str] = &["#", "$", "?", "\\", "~", "`", "\u{0}", "é", "世", "😀", "\u{feff}", "\u{200b}", "\u{7f}"];
const FLIP: &[(&str, &str)] = &[("(", ")"), (")", "("), ("{", "}"), ("}", "{"), ("[", "]"), ("]", "["), ("\"", "'"), ("${", "$")];

fn vocab_pick<'a>(r: &mut Rng) -> &'a str {
    match r.below(12) {
        0 | 1 | 2 => r.pick(KEYWORDS),
        3 | 4 | 5 => r.pick(OPERATORS),
        6 | 7 | 8 => r.pick(LITERALS),
        9 | 10 => r.pick(TRIVIA),
        _ => r.pick(UNKNOWN),
    }
}

fn floor_boundary(s: &str, mut i: usize) -> usize {
    if i > s.len() {
        i = s.len();
    }
    while !s.is_char_boundary(i) {
        i -= 1;
    }
    i
}

fn is_trivia_text(t: &str) -> bool {
    t.trim().is_empty() || t.starts_with("//") || t.starts_with("/*")
}

/// index of a random NON-trivia token (mutating blanks teaches nothing about the analysis)
fn pick_code_token(r: &mut Rng, toks: &[String]) -> usize {
    let n = toks.len() as u64;
    for _ in 0..8 {
        let i = r.below(n) as usize;
        if !is_trivia_text(&toks[i]) {
            return i;
        }
    }
    r.below(n) as usize
}

fn mutate(r: &mut Rng, toks: &mut Vec<String>, other: &[String]) -> &'static str {
    if toks.is_empty() {
        toks.push(vocab_pick(r).to_string());
        return "insert";
    }
    let n = toks.len() as u64;
    match r.below(9) {
        0 => {
            let i = pick_code_token(r, toks);
            toks.remove(i);
            "delete"
        }
        1 => {
            let i = pick_code_token(r, toks);
            let t = toks[i].clone();
            toks.insert(i, t);
            "duplicate"
        }
        2 => {
            let i = pick_code_token(r, toks);
            let j = pick_code_token(r, toks);
            toks.swap(i, j);
            "swap"
        }
        3 => {
            let i = pick_code_token(r, toks);
            toks[i] = vocab_pick(r).to_string();
            "replace"
        }
        4 => {
            let i = r.below(n + 1) as usize;
            toks.insert(i, vocab_pick(r).to_string());
            "insert"
        }
        5 => {
            let joined: String = toks.concat();
            let cut = floor_boundary(&joined, r.below(joined.len() as u64 + 1) as usize);
            toks.clear();
            toks.push(joined[..cut].to_string());
            "truncate"
        }
        6 => {
            let i = r.below(n + 1) as usize;
            toks.truncate(i);
            if !other.is_empty() {
                let j = r.below(other.len() as u64) as usize;
                toks.extend_from_slice(&other[j..]);
            }
            "splice"
        }
        7 => {
            let mut done = false;
            for _ in 0..20 {
                let i = r.below(n) as usize;
                if let Some((_, to)) = FLIP.iter().find(|(from, _)| toks[i] == *from) {
                    toks[i] = to.to_string();
                    done = true;
                    break;
                }
            }
            if !done {
                let i = pick_code_token(r, toks);
                toks[i] = (*r.pick(&["(", ")", "{", "}", "[", "]"])).to_string();
            }
            "flip"
        }
        _ => {
            // replace a token by another token of the SAME file (keeps names resolvable: type errors, not parse errors)
            let i = pick_code_token(r, toks);
            let j = pick_code_token(r, toks);
            toks[i] = toks[j].clone();
            "copy"
        }
    }
}

struct Emit {
    seen: std::collections::HashSet<String>,
}

impl Emit {
    fn text(&mut self, family: &str, text: &str) {
        if !self.seen.insert(text.to_string()) {
            return;
        }
        println!("# {}", family);
        println!("sema {}", hex(text.as_bytes()));
    }
}

/// tests in the repository carry their expectation in `//= ...` header lines; nothing to strip — the text is used as is.
fn gen(nfiles: usize, nmut: usize, nsoup: usize, ngram: usize) {
    let mut r = Rng::from_env();
    let mut em = Emit { seen: std::collections::HashSet::new() };

    // 1. fixed edge cases (incl. the shapes of the known crashers; the crashers themselves are corpus/C06/*.req)
    let fixed: &[&str] = &[
        "", " ", "\n", "x", "é", "😀", "/*", "\"", "\"${", "'", "}", "{", "(", "fn", "fn main", "fn main(", "fn main() {", "fn main() {}",
        "fn main() { let x = 1; }", "fn main() { let x: Int64 = \"s\"; }", "fn f(): Int64 { }", "fn f() { return 1; }",
        "fn f() { f(1); }", "fn f() { g(); }", "fn f() {} fn f() {}", "class A class A", "struct S { a: Int64, a: Int64 }",
        "enum E { A, A }", "enum E {}", "trait T { fn f(); } impl T for Int64 {}", "impl Foo {}", "impl Foo for Bar {}",
        "type A = B; type B = A;", "type A = A;", "type A[T] = Vec[T]; fn f(x: A) {}", "fn f[T: Unknown](x: T) {}",
        "fn f[T, T]() {}", "fn f(x: Vec) {}", "fn f(x: Int64[Int64]) {}", "fn f(x: Vec[Int64, Int64]) {}", "use foo::bar;",
        "use std::Vec; use std::Vec;", "use self::a; ", "use super::x;", "use package::f; fn f() {}", "mod m { fn f() {} } fn g() { m::f(); }",
        "mod m { pub fn f() {} } fn g() { m::f(); }", "mod m;", "const X: Int64 = \"a\";", "const X: Int64 = X;", "let g: Int64 = g;",
        "let mut g: Int64 = 0; fn f() { g = true; }", "fn f() { let (a, b) = 1; }", "fn f() { let (a, b) = (1, 2, 3); }",
        "fn f() { let x = (1, 2); x.5; }", "fn f() { let x = 1; x.0; }", "fn f() { 1.0.0; }", "fn f(x: Int64) { x.foo; x.foo(); x.0(); }",
        "fn f() { self; }", "fn f() { Self::x; }", "fn f() { break; continue; }", "fn f() { while 1 {} }", "fn f() { for x in 1 {} }",
        "fn f() { if 1 { } }", "fn f() { if true { 1 } else { \"a\" }; }", "fn f() { match 1 { } }", "fn f() { match 1 { 1 => 2 } }",
        "fn f() { match true { true => 1, true => 2, false => 3 } }", "fn f(x: Option[Int64]) { match x { Some(a, b) => 1, None(c) => 2 } }",
        "fn f(x: Option[Int64]) { match x { Some(..) => 1, .. => 2 } }", "fn f(t: (Int64, Bool)) { match t { (a, ..) => 1 } }",
        "fn f(t: (Int64, Bool)) { match t { (.., ..) => 1 } }", "fn f(x: Int64) { match x { 1 | 2 | \"a\" => 1, _ => 2 } }",
        "fn f(x: Int64) { match x { a | b => 1 } }", "fn f(x: Int64) { x is Some(y); x is 1 && y; }", "fn f() { |x| x; |x: Int64| -> Int64 { x }; }",
        "fn f() { let l = |a: Int64|: Int64 { a }; l(1, 2); l(\"a\"); }", "fn f() { [1, \"a\"]; []; [1,]; }", "fn f() { let a = [1i32]; }",
        "fn f() { let a = [Int64]; }", "fn f() { [1] ; [x]; [Int64::max_value()]; }", "fn f() { Vec[Int64]::new(); Vec::[Int64]::new(); Vec[]::new(); }",
        "fn f() { [Int64 as Foo]::bar(); [T as std::traits::Default]::default(); }", "fn f[T: std::traits::Default]() { [T as std::traits::Default]::default(); [T as Default]::x; }",
        "fn f() { 1 as String; 1 as Unknown; \"a\" as Int64; }", "fn f() { -\"a\"; !1.5; 1 + true; 1 === 2; \"a\" < 1; }",
        "fn f() { 9223372036854775808; 256u8; 1e400; 0x; 0b; 1u99; 1.0f16; 'ab'; ''; }", "fn f() { \"${}\"; \"${1 +}\"; \"${\"${\"${x}\"}\"}\"; }",
        "fn f() { x = 1; 1 = 2; f() = 3; (1, 2) = (3, 4); }", "fn f() { let x = 1; x += true; x.y += 1; x(0) = 1; }",
        "fn f() { return; return 1; return return; }", "fn f(): Int64 { if true { return 1; } }", "fn f(a: Int64, a: Int64) {}",
        "fn f(a: Int64...) {} fn g(a: Int64..., b: Int64) {}", "fn f(self) {}", "class A { a: Int64 } fn f() { A(); A(1, 2); A(a = 1); A(b = 1); A(1).b; }",
        "struct S(Int64, Bool) fn f() { S(1); S(1, true).2; S(true, 1); }", "class A[T] { a: T } fn f() { A(1); A[String](1); A[Int64, Int64](1); A[Unknown](1); }",
        "enum E { A(Int64), B { x: Int64 } } fn f() { E::A; E::A(); E::B; E::B(x = 1); E::C; E::A::x; }", "enum E[T] { A(T) } fn f() { E::A(1); E[Bool]::A(1); E::A[Bool](1); }",
        "trait T { fn f(); fn f(); } ", "trait T { type X; type X; fn f(): Self::X; fn g(): Self::Y; }", "trait T: T {}", "trait A: B {} trait B: A {}",
        "trait T {} impl T for Int64 {} impl T for Int64 {}", "trait T { fn f(); } impl T for Int64 { fn g() {} }", "trait T { type X; } impl T for Int64 { type X = X; }",
        "trait T[A] {} impl T for Int64 {} impl T[Int64, Int64] for Int64 {}", "impl[T] T {}", "impl[T] Vec[T] { fn f() {} fn f() {} }", "impl Int64 { fn f(self) {} static fn g() {} } fn h() { 1.f(); Int64::g(); 1.g(); Int64::f(); }",
        "@pub @pub fn f() {}", "@Test fn f() {}", "@internal fn f();", "@internal class Foo", "@optimize_immediately @force_inline @never_inline fn f() {}",
        "@unknown fn f() {}", "pub fn f() {} pub pub fn g() {}", "fn f(); fn g() -> Int64 {}", "extern fn f(); extern \"C\" fn g();", "extern package foo;",
        "fn f[T]() where T: Unknown {} fn g[T]() where X: std::traits::Default {} fn h() where {}", "fn f(x: (Int64, (Bool, )), y: (), z: (Int64)) {}", "fn f(x: (Int64) -> Bool, y: () -> (), z: (x: Int64): Bool) {}",
        "fn f(x: Self) {} fn g(): Self {}", "fn f(x: ref Int64) {} fn g(x: ref ref Int64) { ref x; ref 1; }", "fn f(x: _) {} fn g() { let x: _ = 1; let y: Vec[_] = Vec[Int64]::new(); }",
        "fn main() { let t = (1, (2, 3)); let x = t.0.1; }", "fn main() { let t = (1, (2, 3)); let x = t.1 .1; }", "fn main(x: Int64) {} ", "fn main(): String { \"a\" }",
        "class main", "fn f() { unreachable[Int64, Int64](); std::unreachable(); std::unknown(); std::collections::Vec; std::Vec::new; }",
        "fn f() { let x: std = 1; let y: std::collections = 2; f::g; Int64::Int64; }", "fn f() { let f = 1; f(); let Int64 = 2; let x: Int64 = Int64; }",
        "fn f(x: Int64) { let x = x; let x = \"a\"; x + 1; }", "fn f() { { let a = 1; } a; }", "fn f() { let a; let b: Int64; a; b; let _ = 1; let _: String = 1; }",
        "fn f() { let mut (a, mut b) = (1, 2); let (mut c, _) = (1, 2); a = 2; c = 3; }", "fn f(v: Vec[Int64]) { v(0); v(\"a\"); v(0) = \"b\"; v(); v(1, 2); for (a, b) in v {} }",
        "fn f() { while true { let x = break; } loop {} }", "fn f() { for i in 0..10 { } for i in std::range(0, 10) { i = 1; } }",
        "fn f() { 1 .. 2; ..; 1..; ..2; ...; }", "fn f() { a::b::c::d; a::[b]; a::<b>; a.b.c.d; a.(b); a.[0]; }",
        "fn f() { f(a = 1, 2); f(a = 1, a = 2); f(1 = 2); f(,); f(1,,2); }", "class A { fn f() {} }", "class A(Int64, Bool) class B { a: Int64, } class C {,}",
        "struct S[T: ] { } struct U[T: X + ] {} struct V[: X] {}", "enum E { A = 1, B = \"x\" } enum F: Int64 { A }", "type X; type Y = ; type Z[T] = T; type W[T: U] = T;",
        "const c: Int64 = 1; const C: = 1; const D = 1; const E: Int64;", "let x: Int64 = 1; let y = 2; let mut z: Int64; let (a, b): (Int64, Int64) = (1, 2);",
        "mod a { mod b { mod c { fn f() { super::super::super::g(); package::g(); self::f(); super::f(); } } } } fn g() {}",
        "mod a { use super::b::*; } mod b { use super::a::*; }", "mod a { pub use super::b::x; } mod b { pub use super::a::x; }", "use std::{self, Vec as V, Vec as V, unknown::{a, b}, };",
        "use std::*; use std::collections::{*}; use std::{}; use {std}; use ::std; use std::; use std::Vec::new;", "use a as b; use std as s; use std::Vec as _; use std::Vec as;",
        "fn f[T: std::traits::Zero + std::traits::Zero]() {} fn g[T: Int64]() {} fn h[T: std::Vec[Int64]]() {}", "fn f[T](x: T[Int64]) {} fn g[T]() { T::new(); T(); T; }",
        "trait A { fn f(self): Self; } fn g(x: A) {} fn h[T: A](x: T): T { x.f().f().g() }", "trait A {} fn f(x: A, y: A[Int64], z: Vec[A]) {}",
        "impl std::traits::Add for Int64 { fn add(self, o: Int64): Int64 { 0 } }", "impl std::traits::Iterator for Int64 { type Item = Self::Item; fn next(self): Option[Self::Item] { None } }",
        "trait T { type X: T; type Y: Self::X; fn f(): Self::X::X::X; }", "trait T { type X[A]; } impl T for Int64 { type X[A] = A; type X[A, B] = A; }",
        "trait T { const X: Int64; static fn f(); @static fn g(); fn h() {} let y: Int64; }", "fn f() { fn g() {} class A; struct S; let x = A; }",
        "fn f(x: Int64): Int64 = x; fn g() => 1;", "fn f() { if let Some(x) = y {} while let x = 1 {} }", "fn f(x: Option[Int64]) { if x is Some(y) && y > 1 { y; } else { y; } while x is Some(z) { z; } z; }",
        "fn f(x: Option[Int64]) { x is Some(y) || y > 1; !(x is Some(y)) && y; (x is Some(a)) is true; }", "fn f() { match 1 { x if x > 1 => 1, y if \"a\" => 2, _ if z => 3 } }",
        "fn f(x: (Int64, (Bool, String))) { match x { (1, (true, \"a\")) => 1, (_, (_, _)) => 2 } }", "fn f(x: (Int64, Bool)) { match x { (1, true) => 1 } }",
        "fn f(x: Float64) { match x { 1.0 => 1, _ => 2 } } fn g(x: Char) { match x { 'a' => 1, 'a' => 2, _ => 3 } } fn h(x: String) { match x { \"a\" => 1 } }",
        "enum E { A(Int64, Bool), B } fn f(e: E) { match e { E::A(.., true) => 1, E::A(false, ..) => 2, E::B => 3 } }", "enum E { A { x: Int64, y: Bool } } fn f(e: E) { match e { E::A(x, ..) => 1, E::A(y = true, x = 1) => 2, E::A(z = 1) => 3, E::A(x = 1, x = 2) => 4 } }",
        "class C { x: Int64 } fn f(c: C) { match c { C(x) => x, C(y = 1) => 2 } } struct S(Int64) fn g(s: S) { match s { S(1, 2) => 1, S => 2, S(..) => 3 } }",
        "fn f(x: Option[Int64]) { let Some(y) = x else { return; }; let z = 1 else { return; }; let Some(w) = x else { 1 }; }",
        "struct S { x: Int64 } impl S { mutating fn inc() { self.x = self.x + 1; } fn g() { self.x = 2; } } fn f() { let s = S(x = 1); s.inc(); let mut t = S(x = 1); t.inc(); s.x = 3; }",
        "fn f(x: Int64) { let r = ref x; let m = ref mut x; let l = || r; } fn g(): ref Int64 { 1 } fn h(): ref Int64 { let y = 1; ref y }",
        "struct S { x: Int64 } impl S { fn f(): Int64 { let l = ||: Int64 { self.x }; l() } fn g(self: ref S) {} }",
        "const X: Int64 = 1; fn X() {} const Y: Int64 = 2; class Y const Z: Int64 = 3; const Z: Bool = true;",
        "fn f(a: Int64) { let a = a; fn a() {} } fn g[T](T: Int64) {} class C[T] { T: Int64 } fn h[T]() { let T = 1; }",
        "trait I { type Item; } fn f(x: I[Item = Int64, Item = Bool]) {} fn g(x: I[Item = Int64, Int64]) {} fn h[T: I[Item = Int64, Item = Int64]]() {} fn k[T: I[Nope = Int64]]() {}",
        "trait A { type X; } trait B { type X; } fn f[T: A + B](): T::X { } fn g[T: A](x: T::X::X) {} fn h[T: A + A]() {}",
        "enum E { A { x: Int64, y: Int64 } } fn f(e: E) { match e { E::A(x = 1, 2) => 1, E::A(.., x) => 2, E::A(.., x = 3) => 3, E::A(x, y, z) => 4 } }",
        "class C { x: Int64, y: Int64 } fn f(c: C) { match c { C(.., x) => 1, C(x = a, ..) => a, C(..) => 3 } let C(x, y) = c; let C(q) = c; }",
        "fn f() { 0x; 0b; 1__; 0xfffffffffffffffffffff; 1.0e; 1_i32; 0b12; 0xgg; 1e; 1.5f; 1.5f3; 12u64; 1i8; }",
        "mod m { fn p() {} pub fn q() {} mod n { pub fn r() {} } pub mod o { fn s() {} } } use m::p; use m::q; use m::n::r; use m::o::s; use package::m::o; fn main() { p(); q(); }",
        "fn main() { return 1; } fn g(): Int64 { return; } fn h() { let f = ||: Int64 { return true; }; }",
        "fn f(x: Int64): Int64 { match x { y => y, _ => 0 } } fn g(x: (Int64, Bool)) { match x { (a, a) => a, (1, b) | (b, true) => 2 } } fn h(x: Option[Int64]) { match x { Some(a) | None => 1 } }",
        "fn f[T](): T { T::default() } fn g[T: std::traits::Default + std::traits::Zero](): T { T::default(); T::zero(); T::nope() }",
        "fn f() { let v = Vec[Int64]::new(); v.push(1).foo; v.size = 3; v.size() = 3; Vec[Int64]::new = 1; std::Vec = 2; }",
        "use std::string::Stringable; fn f[T: Stringable](x: T): String { x.to_string() } fn g() { f[Int64](1); f[()](()); f[(Int64, Int64)]((1, 2)); f(|| 1); }",
        "@Test fn t(x: Int64) {} @Test fn u(): Int64 { 1 } fn main(args: Array[String]) {} ",
        "fn main() {} fn main() {} mod main {} ",
        "impl[T] std::traits::Default for T { static fn default(): T { std::unreachable() } }",
        "impl[T: std::traits::Default] std::traits::Default for Vec[T] { static fn default(): Vec[T] { Vec[T]::new() } }",
        "trait T { fn f(): Self; } impl T for Int64 { fn f(): Int64 { self } } impl T for Bool { fn f(): Self { true } } fn g(x: T) { x.f(); }",
        "trait T { static fn make(): Self; } fn g[X: T](): X { X::make() } fn h() { g[Int64](); T::make(); }",
        "class A { a: B } class B { b: A } struct C { c: D } struct D { d: C } struct E { e: Option[E] } struct F(F) enum G { V(G) }",
        "enum E { A, B } impl E { fn f(): Int64 { match self { E::A => 1 } } } fn g() { E::A.f(); E::f(E::B); E::C.f(); }",
        "fn f() { let x: Int64; x = 1; let y: Int64; y; let mut z: Int64; if true { z = 1; } z; }",
        "fn f(x: Int64, y: Int64 = 1) {} fn g() { f(1); f(y = 2, x = 1); f(1, 2, 3); f(x = 1, 2); }",
        "fn f(args: Int64...) {} fn g() { f(); f(1); f(1, 2, 3); f(true); f(args = 1); }",
        "fn f() { let a = Array[Int64]::new(); a(0) = 1; a(0)(1); a(true); a(0, 1); a.size(1); Array::new(); Array[]::new(); Array[Int64, Int64]::new(); }",
        "fn f() { \"\\q\"; \"\\u{zz}\"; \"\\u{110000}\"; \"\\x\"; '\\q'; '\\u{12'; }",
        "fn f() { -1u8; -128i8; let x: UInt8 = -1; 300u8; -(1u8); }",
        "enum A { X } enum A { Y } let g: Int64 = 1; let g: Int64 = 2; mod m {} mod m {} trait T {} trait T {} class T fn g() {} struct m",
        "fn f() { let l = |a: Int64, b: Int64, c: Int64, d: Int64, e: Int64, f: Int64, g: Int64, h: Int64, i: Int64, j: Int64, k: Int64, l: Int64, m: Int64, n: Int64, o: Int64, p: Int64, q: Int64, r: Int64| a; }",
        "class C fn f(c: C, l: (): Int64) { \"${c}\"; \"${l}\"; \"${()}\"; \"${(1, 2)}\"; \"${f}\"; \"${C}\"; }",
        "fn f[T](x: T) { x.to_string(); x == x; x + x; } fn g[T: std::traits::Add](x: T): T { x + x } fn h[T](x: T): Int64 { x.hash() }",
        "fn f(x: ref Int64) { x = 2; } fn g(x: ref mut Int64) { x = 2; } struct S { a: Int64 } fn h(s: ref S) { s.a = 1; } fn k() { let s = S(a = 1); let r = ref s; r.a = 2; }",
        "fn f(): Int64 { let x: Int64 = if true { 1 } else { return 2 }; let y = loop { break 1; }; x }",
        "fn f() { a::b(); std::string::String::nope::deeper(); Int64::max::value; f::g(); (1)::x; }",
    ];
    for t in fixed {
        em.text("fixed", t);
    }

    // 2. repository sources (seeded sample)
    let files = dora_files();
    let mut order: Vec<usize> = (0..files.len()).collect();
    for i in (1..order.len()).rev() {
        let j = r.below(i as u64 + 1) as usize;
        order.swap(i, j);
    }
    let take = nfiles.min(order.len());
    let mut texts: Vec<String> = Vec::new();
    for &idx in order.iter().take(take) {
        if let Ok(bytes) = std::fs::read(&files[idx]) {
            if let Ok(t) = String::from_utf8(bytes) {
                // the big library/compiler sources are not single-file programs and cost seconds each: only as mutant donors
                if t.len() <= 40_000 {
                    em.text("file", &t);
                }
                texts.push(t);
            }
        }
    }

    // 3. token-level mutants of repository sources
    if !texts.is_empty() {
        let tok_cache: Vec<Vec<String>> = texts.iter().map(|t| if t.len() <= 60_000 { token_texts(t) } else { Vec::new() }).collect();
        let usable: Vec<usize> = (0..texts.len()).filter(|&i| !tok_cache[i].is_empty()).collect();
        for _ in 0..nmut {
            if usable.is_empty() {
                break;
            }
            let a = *r.pickv(&usable);
            let b2 = *r.pickv(&usable);
            let mut toks = tok_cache[a].clone();
            if toks.len() > 3000 {
                let start = r.below((toks.len() - 3000) as u64) as usize;
                toks = toks[start..start + 3000].to_vec();
            }
            let k = 1 + r.below(3);
            let mut names = Vec::new();
            for _ in 0..k {
                names.push(mutate(&mut r, &mut toks, &tok_cache[b2]));
            }
            em.text(&format!("mutant:{}", names.join("+")), &toks.concat());
        }
    }

    // 4. token soups
    for i in 0..nsoup {
        let n = 1 + r.below(if i % 4 == 0 { 120 } else { 30 }) as usize;
        let mut s = String::new();
        let sep_mode = r.below(3);
        for _ in 0..n {
            s.push_str(vocab_pick(&mut r));
            match sep_mode {
                0 => {}
                1 => s.push(' '),
                _ => {
                    if r.chance(1, 2) {
                        s.push_str(r.pick(TRIVIA));
                    }
                }
            }
        }
        em.text("soup", &s);
    }

    // 5. grammar-directed programs: mostly valid, with seeded faults
    for _ in 0..ngram {
        let (label, prog) = grammar::program(&mut r);
        em.text(&format!("grammar:{}", label), &prog);
    }
}

fn main() {
    let args: Vec<String> = std::env::args().collect();
    install_hook();
    let a = |i: usize, d: usize| args.get(i).and_then(|s| s.parse().ok()).unwrap_or(d);
    match args.get(1).map(|s| s.as_str()) {
        Some("gen") => {
            let (n1, n2, n3, n4) = (a(2, 20), a(3, 100), a(4, 100), a(5, 100));
            // the real lexer is used to cut files into tokens: large stack as in `run`
            let w = std::thread::Builder::new().stack_size(STACK).spawn(move || gen(n1, n2, n3, n4)).unwrap();
            w.join().unwrap();
        }
        Some("run") => {
            serve(args.get(2).cloned());
            // abandoned (timed-out) workers must not keep the process alive
            std::process::exit(0);
        }
        _ => eprintln!("usage: h_c06 gen <nfiles> <nmut> <nsoup> <ngram> | run [file]"),
    }
}
