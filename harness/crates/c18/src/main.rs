//! C18 harness: drives the real dora-bytecode writer / reader and the real bincode codec.
//!   h_c18 gen <n>                 request file on stdout (seeded by VERIF_SEED)
//!   h_c18 run [file]              answer requests with the real implementation
//!   h_c18 pkg <file.dora-package> decode -> re-encode (bytes must be identical); every function body read by the
//!                                 real reader and re-written by the real writer (bytes must be identical);
//!                                 prints `rd <hex>` requests for the Lean reader on stdout, a summary on stderr
//!   h_c18 damage <file> <seed> <trunc_step> <flips> <from>   in-process decoding of damaged copies
//!   h_c18 mutant <file> <kind> <pos> <bit> <out>            write one damaged copy (for the code generator leg)
//!
//! `bc` request: ops separated by blanks, fields by commas (labels are numbered in creation order):
//!   lbl | def | bind,<l> | loc,<line>,<col> | jmp,<l> | jf,<reg>,<l> | jt,<reg>,<l> | loop,<l>
//!   i,<Opcode>,<emit_* parameters…>   (lists `[a:b:c]`, strings `x<hex>`, floats as bit patterns)
//!   rep,<n>,<Opcode>,<parameters…> | k,<n> (n filler constants) | jtab,[l:l:…],<default l>
//! response: code=<hex> cp=<constant pool> loc=<line table> ins=<listing from the real reader> [rt=FAIL…]
//! Fields longer than 4000 characters are replaced by `#<fnv64>:<length>` on both sides.
mod gen_dispatch;

use dora_bytecode::{
    BytecodeBody, BytecodeType, BytecodeWriter, ConstPoolEntry, ConstPoolIdx, Label, Location, Program, Register,
};
use hutil::{unhex, Rng};

fn hex(bytes: &[u8]) -> String {
    if bytes.is_empty() {
        return "-".to_string();
    }
    const D: &[u8; 16] = b"0123456789abcdef";
    let mut s = String::with_capacity(bytes.len() * 2);
    for b in bytes {
        s.push(D[(b >> 4) as usize] as char);
        s.push(D[(b & 15) as usize] as char);
    }
    s
}
use std::io::Write;

pub enum Arg {
    N(i128),
    L(Vec<u64>),
    S(String),
}

impl Arg {
    pub fn n(&self) -> i128 {
        match self {
            Arg::N(v) => *v,
            _ => panic!("request: number expected"),
        }
    }
    pub fn l(&self) -> &Vec<u64> {
        match self {
            Arg::L(v) => v,
            _ => panic!("request: list expected"),
        }
    }
    pub fn s(&self) -> String {
        match self {
            Arg::S(v) => v.clone(),
            _ => panic!("request: string expected"),
        }
    }
    fn parse(t: &str) -> Arg {
        if let Some(inner) = t.strip_prefix('[') {
            let inner = inner.trim_end_matches(']');
            if inner.is_empty() {
                return Arg::L(Vec::new());
            }
            return Arg::L(inner.split(':').map(|x| x.parse().expect("request: list item")).collect());
        }
        if let Some(h) = t.strip_prefix('x') {
            return Arg::S(String::from_utf8(unhex(if h.is_empty() { "-" } else { h })).expect("request: utf8"));
        }
        Arg::N(t.parse().expect("request: number"))
    }
}

#[derive(Clone, PartialEq, Debug)]
pub enum V {
    N(u64),
    L(Vec<u64>),
}

impl V {
    fn show(&self) -> String {
        match self {
            V::N(v) => v.to_string(),
            V::L(l) => format!("[{}]", l.iter().map(|x| x.to_string()).collect::<Vec<_>>().join(":")),
        }
    }
}

/// what the real reader reports: (offset, opcode name, operands in visit_* order)
#[derive(Default)]
pub struct Lister {
    pub cur: u32,
    pub out: Vec<(u32, &'static str, Vec<V>)>,
}

impl Lister {
    pub fn at(&mut self, off: u32) {
        self.cur = off;
    }
    pub fn ins(&mut self, name: &'static str, ops: Vec<V>) {
        self.out.push((self.cur, name, ops));
    }
    fn show(&self) -> String {
        if self.out.is_empty() {
            return "-".to_string();
        }
        self.out
            .iter()
            .map(|(o, n, ops)| format!("{}:{}:{}", o, n, ops.iter().map(|v| v.show()).collect::<Vec<_>>().join(",")))
            .collect::<Vec<_>>()
            .join(";")
    }
}

fn fnv64(s: &str) -> u64 {
    let mut h: u64 = 0xcbf29ce484222325;
    for b in s.bytes() {
        h = (h ^ b as u64).wrapping_mul(0x100000001b3);
    }
    h
}

fn fnv_bytes(b: &[u8]) -> u64 {
    let mut h: u64 = 0xcbf29ce484222325;
    for x in b {
        h = (h ^ *x as u64).wrapping_mul(0x100000001b3);
    }
    h
}

fn big(s: String) -> String {
    if s.len() > 4000 {
        format!("#{}:{}", fnv64(&s), s.len())
    } else {
        s
    }
}

fn show_const(e: &ConstPoolEntry) -> String {
    match e {
        ConstPoolEntry::String(s) => format!("s:{}", hex(s.as_bytes())),
        ConstPoolEntry::Float32(v) => format!("f32:{}", v.to_bits()),
        ConstPoolEntry::Float64(v) => format!("f64:{}", v.to_bits()),
        ConstPoolEntry::Int32(v) => format!("i32:{}", v),
        ConstPoolEntry::Int64(v) => format!("i64:{}", v),
        ConstPoolEntry::Char(c) => format!("ch:{}", *c as u32),
        ConstPoolEntry::JumpTable { targets, default_target } => {
            format!("jt:[{}]/{}", targets.iter().map(|x| x.to_string()).collect::<Vec<_>>().join(":"), default_target)
        }
        _ => "other".to_string(),
    }
}

/// visit_* parameter k shows emit_* parameter VISIT_OF_EMIT[k] — written down by hand from the meaning of the
/// parameters (NOT derived from the wire order), so that a swapped operand is caught by the round-trip oracle.
fn expected_visit(name: &str, api: &[V]) -> Vec<V> {
    match name {
        // emit_new_trait_object(dest, idx, src)  vs  visit_new_trait_object(dest, src, idx)
        "NewTraitObject" => vec![api[0].clone(), api[2].clone(), api[1].clone()],
        _ => api.to_vec(),
    }
}

enum Exp {
    Plain(&'static str, Vec<V>),
    Const(&'static str, u64, String), // opcode, dest, expected pool entry text; idx = pool position
    Fwd(&'static str, Option<u64>, usize),
    Loop(usize),
}

fn static_name(name: &str) -> &'static str {
    Box::leak(name.to_string().into_boxed_str())
}

fn bc(ops: &[&str]) -> String {
    let mut w = BytecodeWriter::new();
    let mut labels: Vec<Label> = Vec::new();
    let mut bound_at: Vec<Option<usize>> = Vec::new(); // label -> number of instructions emitted when bound
    let mut exp: Vec<Exp> = Vec::new();
    let mut exp_pool: Vec<(u32, String)> = Vec::new();
    let mut pool_len: u32 = 0;
    let mut tables: Vec<(u32, Vec<usize>, usize)> = Vec::new();
    for op in ops {
        let f: Vec<&str> = op.split(',').collect();
        match f[0] {
            "lbl" => {
                labels.push(w.create_label());
                bound_at.push(None);
            }
            "def" => {
                labels.push(w.define_label());
                bound_at.push(Some(exp.len()));
            }
            "bind" => {
                let l: usize = f[1].parse().unwrap();
                w.bind_label(Label(l));
                if l < bound_at.len() {
                    bound_at[l] = Some(exp.len());
                }
            }
            "loc" => w.set_location(Location::new(f[1].parse().unwrap(), f[2].parse().unwrap())),
            "jmp" => {
                let l: usize = f[1].parse().unwrap();
                w.emit_jump(Label(l));
                exp.push(Exp::Fwd("Jump", None, l));
            }
            "jf" | "jt" => {
                let r: u64 = f[1].parse().unwrap();
                let l: usize = f[2].parse().unwrap();
                if f[0] == "jf" {
                    w.emit_jump_if_false(Register(r as usize), Label(l));
                    exp.push(Exp::Fwd("JumpIfFalse", Some(r), l));
                } else {
                    w.emit_jump_if_true(Register(r as usize), Label(l));
                    exp.push(Exp::Fwd("JumpIfTrue", Some(r), l));
                }
            }
            "loop" => {
                let l: usize = f[1].parse().unwrap();
                w.emit_jump_loop(Label(l));
                exp.push(Exp::Loop(l));
            }
            "k" => {
                let n: u32 = f[1].parse().unwrap();
                for j in 0..n {
                    w.add_const(ConstPoolEntry::Int32(j as i32));
                }
                pool_len += n;
            }
            "jtab" => {
                let ts = match Arg::parse(f[1]) {
                    Arg::L(v) => v,
                    _ => panic!("request: jtab"),
                };
                let d: usize = f[2].parse().unwrap();
                let idx = w.add_const_jump_table(ts.iter().map(|&x| Label(x as usize)).collect(), Label(d));
                assert_eq!(idx, ConstPoolIdx(pool_len), "harness: const pool index");
                tables.push((pool_len, ts.iter().map(|&x| x as usize).collect(), d));
                pool_len += 1;
            }
            "i" | "rep" => {
                let (n, name, ps) = if f[0] == "i" { (1usize, f[1], &f[2..]) } else { (f[1].parse().unwrap(), f[2], &f[3..]) };
                let args: Vec<Arg> = ps.iter().map(|t| Arg::parse(t)).collect();
                let ar = gen_dispatch::arity(name).expect("request: unknown opcode");
                assert_eq!(ar, args.len(), "request: arity");
                let sname = static_name(name);
                let is_const = matches!(name, "ConstChar" | "ConstInt32" | "ConstInt64" | "ConstFloat32" | "ConstFloat64" | "ConstString");
                for _ in 0..n {
                    gen_dispatch::emit(&mut w, name, &args);
                    if is_const {
                        let txt = match (name, &args[1]) {
                            ("ConstChar", Arg::N(v)) => format!("ch:{}", v),
                            ("ConstInt32", Arg::N(v)) => format!("i32:{}", v),
                            ("ConstInt64", Arg::N(v)) => format!("i64:{}", v),
                            ("ConstFloat32", Arg::N(v)) => format!("f32:{}", v),
                            ("ConstFloat64", Arg::N(v)) => format!("f64:{}", v),
                            ("ConstString", Arg::S(s)) => format!("s:{}", hex(s.as_bytes())),
                            _ => panic!("request: const value"),
                        };
                        exp.push(Exp::Const(sname, args[0].n() as u64, txt.clone()));
                        exp_pool.push((pool_len, txt));
                        pool_len += 1;
                    } else {
                        let api: Vec<V> = args
                            .iter()
                            .map(|a| match a {
                                Arg::N(v) => V::N(*v as u64),
                                Arg::L(l) => V::L(l.clone()),
                                Arg::S(_) => panic!("request: string operand"),
                            })
                            .collect();
                        exp.push(Exp::Plain(sname, expected_visit(name, &api)));
                    }
                }
            }
            _ => panic!("request: unknown op {}", f[0]),
        }
    }
    let body: BytecodeBody = w.generate();
    let code = body.code().to_vec();
    let pool: Vec<String> = body.const_pool_entries().iter().map(show_const).collect();
    let cp = if pool.is_empty() { "-".to_string() } else { pool.join(";") };
    let locs = if body.locations().is_empty() {
        "-".to_string()
    } else {
        body.locations().iter().map(|(o, l)| format!("{}:{}:{}", o.to_u32(), l.line(), l.column())).collect::<Vec<_>>().join(";")
    };
    let head = format!("code={} cp={} loc={}", big(hex(&code)), big(cp), big(locs));
    let mut lister = Lister::default();
    let rd = std::panic::catch_unwind(std::panic::AssertUnwindSafe(|| dora_bytecode::read(&code, &mut lister)));
    if rd.is_err() {
        return format!("{} ins=!panic rt=FAIL:reader-panicked-on-written-code", head);
    }
    // ---- oracle on the implementation itself: read(write(p)) == p
    let mut fail: Option<String> = None;
    let got = &lister.out;
    if got.len() != exp.len() {
        fail = Some(format!("{}-instructions-written-{}-read", exp.len(), got.len()));
    } else {
        let off_of = |n: usize| -> u64 { if n < got.len() { got[n].0 as u64 } else { code.len() as u64 } };
        let mut pool_at = pool_len as u64; // recomputed below per const instruction
        let _ = &mut pool_at;
        let mut const_seen = 0usize;
        for (k, e) in exp.iter().enumerate() {
            let (_, gname, gops) = &got[k];
            let ok = match e {
                Exp::Plain(n, ops) => gname == n && gops == ops,
                Exp::Const(n, dest, txt) => {
                    let (idx, etxt) = &exp_pool[const_seen];
                    const_seen += 1;
                    gname == n
                        && gops == &vec![V::N(*dest), V::N(*idx as u64)]
                        && etxt == txt
                        && pool.get(*idx as usize) == Some(txt)
                }
                Exp::Fwd(n, cond, l) => {
                    let tgt = bound_at.get(*l).copied().flatten().map(off_of);
                    let mut want = Vec::new();
                    if let Some(c) = cond {
                        want.push(V::N(*c));
                    }
                    match tgt {
                        Some(t) => {
                            want.push(V::N(t.wrapping_sub(got[k].0 as u64)));
                            gname == n && gops == &want
                        }
                        None => false,
                    }
                }
                Exp::Loop(l) => match bound_at.get(*l).copied().flatten().map(off_of) {
                    Some(t) => *gname == "JumpLoop" && gops == &vec![V::N((got[k].0 as u64).wrapping_sub(t))],
                    None => false,
                },
            };
            if !ok && fail.is_none() {
                fail = Some(format!("instruction-{}-read-back-as-{}:{}", k, gname, gops.iter().map(|v| v.show()).collect::<Vec<_>>().join(",")));
            }
        }
        for (idx, ts, d) in &tables {
            let want = format!(
                "jt:[{}]/{}",
                ts.iter().map(|l| bound_at.get(*l).copied().flatten().map(off_of).map(|x| x.to_string()).unwrap_or("?".into())).collect::<Vec<_>>().join(":"),
                bound_at.get(*d).copied().flatten().map(off_of).map(|x| x.to_string()).unwrap_or("?".into())
            );
            if pool.get(*idx as usize) != Some(&want) && fail.is_none() {
                fail = Some(format!("jump-table-{}-is-{}-expected-{}", idx, pool.get(*idx as usize).cloned().unwrap_or_default(), want));
            }
        }
    }
    match fail {
        None => format!("{} ins={}", head, big(lister.show())),
        Some(why) => format!("{} ins={} rt=FAIL:{}", head, big(lister.show()), why),
    }
}

fn rd(h: &str) -> String {
    let code = unhex(h);
    let mut lister = Lister::default();
    dora_bytecode::read(&code, &mut lister);
    big(lister.show())
}

// ---------------------------------------------------------------------------------- bincode values

fn cfg() -> bincode::config::Configuration {
    bincode::config::standard()
}

fn recode<T: bincode::Decode<()> + bincode::Encode>(b: &[u8]) -> String {
    match bincode::decode_from_slice::<T, _>(b, cfg()) {
        Ok((v, used)) => format!("ok {} {}", hex(&bincode::encode_to_vec(&v, cfg()).expect("encode")), b.len() - used),
        Err(_) => "err".to_string(),
    }
}

/// f32/f64 are compared as bit patterns: decode -> re-encode must not touch them
fn bin(ty: &str, h: &str) -> String {
    let b = unhex(h);
    match ty {
        "u8" => recode::<u8>(&b),
        "u16" => recode::<u16>(&b),
        "u32" => recode::<u32>(&b),
        "u64" => recode::<u64>(&b),
        "usize" => recode::<usize>(&b),
        "i32" => recode::<i32>(&b),
        "i64" => recode::<i64>(&b),
        "bool" => recode::<bool>(&b),
        "f32" => recode::<f32>(&b),
        "f64" => recode::<f64>(&b),
        "char" => recode::<char>(&b),
        "str" => recode::<String>(&b),
        "vec.u8" => recode::<Vec<u8>>(&b),
        "vec.u32" => recode::<Vec<u32>>(&b),
        "vec.str" => recode::<Vec<String>>(&b),
        "vec.i64" => recode::<Vec<i64>>(&b),
        "opt.u64" => recode::<Option<u64>>(&b),
        "opt.str" => recode::<Option<String>>(&b),
        "opt.opt.bool" => recode::<Option<Option<bool>>>(&b),
        "pair.u32.str" => recode::<(u32, String)>(&b),
        "vec.pair.u32.opt.i64" => recode::<Vec<(u32, Option<i64>)>>(&b),
        "vec.pair.str.pair.char.f64" => recode::<Vec<(String, (char, f64))>>(&b),
        "vec.vec.u16" => recode::<Vec<Vec<u16>>>(&b),
        _ => "!badreq".to_string(),
    }
}

const BIN_TYPES: &[&str] = &[
    "u8", "u16", "u32", "u64", "usize", "i32", "i64", "bool", "f32", "f64", "char", "str", "vec.u8", "vec.u32",
    "vec.str", "vec.i64", "opt.u64", "opt.str", "opt.opt.bool", "pair.u32.str", "vec.pair.u32.opt.i64",
    "vec.pair.str.pair.char.f64", "vec.vec.u16",
];

fn respond(line: &str) -> String {
    let p: Vec<&str> = line.split(' ').collect();
    match p[0] {
        "bc" => bc(&p[1..]),
        "rd" => rd(p[1]),
        "bin" => bin(p[1], p[2]),
        _ => "!badreq".to_string(),
    }
}

// ---------------------------------------------------------------------------------- generator

const BOUNDS: &[u64] = &[0, 1, 126, 127, 128, 129, 254, 255, 256, 257, 16382, 16383, 16384, 16385, 2097151, 2097152,
    2097153, 268435455, 268435456, 4294967294, 4294967295];

fn operand(r: &mut Rng) -> u64 {
    match r.below(10) {
        0..=3 => *r.pickv(BOUNDS),
        4..=6 => r.below(300),
        7 => r.below(40000),
        8 => r.below(1 << 22),
        _ => r.below(1 << 32),
    }
}

/// (name, parameter kinds): r = register/index/id (u32 range), b = byte, a = argument list
const PLAIN: &[(&str, &str)] = &[
    ("Add", "rrr"), ("Sub", "rrr"), ("Neg", "rr"), ("Mul", "rrr"), ("Div", "rrr"), ("Mod", "rrr"), ("CheckedAdd", "rrr"),
    ("CheckedSub", "rrr"), ("CheckedNeg", "rr"), ("CheckedMul", "rrr"), ("CheckedDiv", "rrr"), ("CheckedMod", "rrr"),
    ("And", "rrr"), ("Or", "rrr"), ("Xor", "rrr"), ("Not", "rr"), ("Shl", "rrr"), ("Shr", "rrr"), ("Sar", "rrr"), ("Mov", "rr"),
    ("LoadEnumElement", "rrr"), ("LoadEnumVariant", "rrr"), ("LoadField", "rrr"), ("StoreField", "rrr"), ("LoadGlobal", "rr"),
    ("StoreGlobal", "rr"), ("LoadConst", "rr"), ("ConstTrue", "r"), ("ConstFalse", "r"), ("ConstUInt8", "rb"),
    ("TestIdentity", "rrr"), ("TestEq", "rrr"), ("TestNe", "rrr"), ("TestGt", "rrr"), ("TestGe", "rrr"), ("TestLt", "rrr"),
    ("TestLe", "rrr"), ("LoopStart", ""), ("Switch", "rr"), ("InvokeDirect", "rra"), ("InvokeVirtual", "rra"),
    ("InvokeStatic", "rra"), ("InvokeGenericStatic", "rra"), ("InvokeGenericDirect", "rra"), ("NewObject", "rra"),
    ("NewArray", "rrr"), ("NewTuple", "rra"), ("NewEnum", "rra"), ("NewStruct", "rra"), ("NewTraitObject", "rrr"),
    ("ArrayLength", "rr"), ("LoadArray", "rrr"), ("StoreArray", "rrr"), ("GetArrayRef", "rrr"), ("GetFieldRef", "rrr"),
    ("StoreRef", "rr"), ("LoadRef", "rr"), ("GetRegisterRef", "rr"), ("GetGlobalRef", "rr"), ("Ret", "r"),
];

fn plain_instr(r: &mut Rng, k: usize, distinct: bool) -> String {
    let (name, kinds) = PLAIN[k % PLAIN.len()];
    let mut s = format!("{}", name);
    let mut used: Vec<u64> = Vec::new();
    for c in kinds.chars() {
        s.push(',');
        match c {
            'r' => {
                let mut v = operand(r);
                while distinct && used.contains(&v) {
                    v = operand(r);
                }
                used.push(v);
                s.push_str(&v.to_string());
            }
            'b' => s.push_str(&(*r.pickv(&[0u64, 1, 127, 128, 255])).to_string()),
            _ => {
                let n = match r.below(8) {
                    0 => 0,
                    1 => 127 + r.below(3),
                    2 => 255 + r.below(3),
                    _ => r.below(6),
                };
                let items: Vec<String> = (0..n).map(|_| operand(r).to_string()).collect();
                s.push_str(&format!("[{}]", items.join(":")));
            }
        }
    }
    s
}

fn const_instr(r: &mut Rng) -> String {
    let dest = operand(r);
    match r.below(6) {
        0 => format!("i,ConstInt32,{},{}", dest, *r.pickv(&[0i64, -1, 1, i32::MIN as i64, i32::MAX as i64, 125, -126, 65535])),
        1 => format!("i,ConstInt64,{},{}", dest, *r.pickv(&[0i64, -1, i64::MIN, i64::MAX, 250, 251, -125, -126, 1 << 32])),
        2 => format!("i,ConstFloat32,{},{}", dest, *r.pickv(&[0u64, 0x7fc00000, 0x7fc00001, 0xffc00000, 0x80000000, 0x3f800000, 0x7f800001, 1])),
        3 => format!("i,ConstFloat64,{},{}", dest, *r.pickv(&[0u64, 0x7ff8000000000000, 0x7ff8000000000001, 0xfff8000000000000, 0x7ff0000000000001, 0x3ff0000000000000])),
        4 => format!("i,ConstChar,{},{}", dest, *r.pickv(&[0u64, 0x41, 0x7f, 0x80, 0x7ff, 0x800, 0xd7ff, 0xe000, 0xffff, 0x10000, 0x10ffff])),
        _ => format!("i,ConstString,{},x{}", dest, {
            let h = hex(r.pick(&["", "a", "héllo", "☃", "😀 x", "\u{0}"]).as_bytes());
            if h == "-" { String::new() } else { h }
        }),
    }
}

const NEEDS_LOC_HINT: &str = "loc";

fn gen_program(r: &mut Rng, i: usize, out: &mut Vec<String>) {
    // a random session: labels, forward jumps, loops, filler; every label eventually bound
    let mut ops: Vec<String> = vec!["bc".to_string()];
    let mut nlabels = 0usize;
    let mut open: Vec<usize> = Vec::new(); // created, unbound
    let mut defined: Vec<usize> = Vec::new();
    if r.chance(1, 4) {
        ops.push(format!("k,{}", *r.pickv(&[1u64, 126, 127, 128, 129, 300, 16383, 16384, 16385])));
    }
    let len = 1 + r.below(if i % 7 == 0 { 60 } else { 14 }) as usize;
    let mut pending_tables: Vec<(Vec<usize>, usize)> = Vec::new();
    for step in 0..len {
        match r.below(16) {
            0 => {
                ops.push("lbl".into());
                open.push(nlabels);
                nlabels += 1;
                let l = nlabels - 1;
                match r.below(3) {
                    0 => ops.push(format!("jmp,{}", l)),
                    1 => ops.push(format!("jf,{},{}", operand(r), l)),
                    _ => ops.push(format!("jt,{},{}", operand(r), l)),
                }
            }
            1 => {
                if let Some(&l) = open.first() {
                    if r.chance(1, 2) {
                        ops.push(format!("jf,{},{}", operand(r), l));
                    }
                    ops.push(format!("bind,{}", l));
                    open.remove(0);
                }
            }
            2 => {
                ops.push("def".into());
                defined.push(nlabels);
                nlabels += 1;
                ops.push("i,LoopStart".into());
            }
            3 => {
                if !defined.is_empty() {
                    let l = *r.pickv(&defined);
                    ops.push(format!("loop,{}", l));
                }
            }
            4 => {
                // padding that moves later offsets across a varint boundary of the distance
                let n = *r.pickv(&[40u64, 42, 43, 60, 5400, 5461, 5462]);
                ops.push(format!("rep,{},Mov,{},{}", n, r.below(100), r.below(100)));
            }
            5 => ops.push(const_instr(r)),
            6 => {
                // switch through a jump table whose labels are bound later
                let n = 1 + r.below(4) as usize;
                let mut ls = Vec::new();
                for _ in 0..n + 1 {
                    ops.push("lbl".into());
                    ls.push(nlabels);
                    nlabels += 1;
                }
                let d = ls.pop().unwrap();
                ops.push(format!("jtab,[{}],{}", ls.iter().map(|x| x.to_string()).collect::<Vec<_>>().join(":"), d));
                pending_tables.push((ls.clone(), d));
                for l in ls {
                    open.push(l);
                }
                open.push(d);
            }
            _ => {
                ops.push(format!("{},{},{}", NEEDS_LOC_HINT, 1 + r.below(500), 1 + r.below(120)));
                let which = (i * 31 + step * 7 + r.below(70) as usize) % PLAIN.len();
                let distinct = r.chance(1, 2);
                ops.push(format!("i,{}", plain_instr(r, which, distinct)));
            }
        }
    }
    for l in open {
        if r.chance(1, 3) {
            ops.push(format!("rep,{},Mov,1,2", r.below(50)));
        }
        ops.push(format!("bind,{}", l));
    }
    ops.push(format!("i,Ret,{}", operand(r)));
    out.push(ops.join(" "));
}

fn gen(n: usize) {
    let mut r = Rng::from_env();
    let mut out: Vec<String> = Vec::new();
    // 1. every opcode × every boundary value in every operand position (loc set: some opcodes assert it)
    for k in 0..PLAIN.len() {
        let (name, kinds) = PLAIN[k];
        let arity = kinds.len();
        if arity == 0 {
            out.push(format!("bc i,{}", name));
            continue;
        }
        for pos in 0..arity {
            for &b in BOUNDS {
                let mut ps: Vec<String> = Vec::new();
                for (j, c) in kinds.chars().enumerate() {
                    let v = if j == pos { b } else { 1 + j as u64 };
                    ps.push(match c {
                        'r' => v.to_string(),
                        'b' => (v % 256).to_string(),
                        _ => {
                            if j == pos {
                                // argument lists: the count crosses 127/128 and 255/256 too; one value at the boundary
                                let cnt = match b { 0 => 0, 127 | 128 | 255 | 256 | 16383 | 16384 => b, _ => 3 };
                                let mut items: Vec<String> = (0..cnt).map(|x| (x % 200).to_string()).collect();
                                if let Some(x) = items.last_mut() { *x = b.to_string(); }
                                format!("[{}]", items.join(":"))
                            } else {
                                "[7:8]".to_string()
                            }
                        }
                    });
                }
                out.push(format!("bc loc,3,4 i,{},{}", name, ps.join(",")));
            }
        }
    }
    // missing location on an opcode that needs one: the writer refuses (assert) — both sides must say so
    out.push("bc i,CheckedAdd,1,2,3".to_string());
    out.push("bc loc,1,1 i,Add,1,2,3 i,CheckedAdd,1,2,3".to_string());
    out.push("bc loc,1,1 i,CheckedAdd,1,2,3 i,CheckedAdd,1,2,3".to_string());
    out.push("bc loc,1,1 i,CheckedAdd,1,2,3 loc,1,1 i,CheckedAdd,1,2,3 loc,1,2 i,Shl,1,2,3".to_string());
    out.push("bc loc,1,1 lbl jmp,0 i,CheckedAdd,1,2,3 bind,0 i,Ret,0".to_string());
    // 2. forward jumps / loops with distances on both sides of every boundary (filler = 3-byte instructions)
    for &(pad, extra) in &[(0u64, 0u64), (40, 0), (41, 0), (42, 0), (43, 0), (84, 0), (85, 0), (5460, 0), (5461, 0), (5462, 0)] {
        out.push(format!("bc lbl jmp,0 rep,{},Mov,1,2 rep,{},Ret,0 bind,0 i,Ret,1", pad, extra));
        out.push(format!("bc lbl jf,300,0 rep,{},Mov,1,2 bind,0 i,Ret,1", pad));
        out.push(format!("bc lbl jt,16384,0 rep,{},Mov,1,2 bind,0", pad));
        out.push(format!("bc def i,LoopStart rep,{},Mov,1,2 rep,{},Ret,0 loop,0 i,Ret,1", pad, extra));
        out.push(format!("bc lbl lbl lbl jtab,[0:1],2 i,Switch,5,0 bind,0 rep,{},Mov,1,2 bind,1 i,Ret,1 bind,2 i,Ret,2", pad));
    }
    // distances around 2^21 (the fourth varint byte of a JumpLoop distance; forward distances are fixed-width)
    out.push("bc lbl jf,7,0 rep,699049,Mov,1,2 bind,0 i,Ret,1".to_string());
    out.push("bc def i,LoopStart rep,699049,Mov,1,2 rep,1,Ret,0 loop,0 def rep,1,Ret,0 loop,1 lbl jmp,2 bind,2".to_string());
    if n >= 2000 {
        for pad in [699048u64, 699050, 699051, 800000] {
            out.push(format!("bc lbl jmp,0 rep,{},Mov,1,2 bind,0 i,Ret,1", pad));
            out.push(format!("bc def i,LoopStart rep,{},Mov,1,2 loop,0 i,Ret,1", pad));
            out.push(format!("bc lbl lbl lbl jtab,[0:1],2 i,Switch,5,0 bind,0 rep,{},Mov,1,2 bind,1 i,Ret,1 bind,2 i,Ret,2", pad));
        }
    }
    // 3. constant pools on both sides of the index boundaries
    for &k in &[0u64, 126, 127, 128, 16382, 16383, 16384, 16385, 70000] {
        out.push(format!("bc k,{} i,ConstInt32,1,-5 i,ConstString,2,x6869 i,ConstFloat64,3,9221120237041090561 i,ConstChar,4,128512 i,ConstInt64,0,-9223372036854775808 i,ConstFloat32,9,2143289345", k));
        out.push(format!("bc k,{} lbl lbl jtab,[0:0:1],1 i,Switch,3,{} bind,0 i,Ret,0 bind,1 i,Ret,1", k, k));
    }
    // 4. misuse the writer refuses: bind twice, jump to a bound label, loop to an unbound one, never bound, bad label
    for s in ["bc lbl bind,0 bind,0", "bc lbl bind,0 jmp,0", "bc def jf,1,0", "bc lbl loop,0", "bc lbl jmp,0 i,Ret,0", "bc jmp,0",
              "bc bind,3", "bc lbl lbl jtab,[0],1 bind,0", "bc lbl jtab,[0],0 bind,0", "bc lbl jtab,[],0", "bc lbl jmp,0 bind,0",
              "bc def loop,0", "bc def def i,Ret,1 loop,1 loop,0"] {
        out.push(s.to_string());
    }
    // 5. random sessions
    for i in 0..n {
        gen_program(&mut r, i, &mut out);
    }
    // 6. the reader on byte strings that are not what the writer produced: truncations, illegal opcodes,
    //    over-long varints (the debug build refuses a shift ≥ 32)
    let samples: Vec<Vec<u8>> = vec![
        vec![0, 1, 2, 3], vec![68, 0x80, 0x80, 0x80, 0x80, 0x01], vec![68, 0x80, 0x80, 0x80, 0x80, 0x7f], vec![68, 0xff, 0xff, 0xff, 0xff, 0x0f],
        vec![68, 0x80, 0x80, 0x80, 0x80, 0x80, 0x01], vec![68, 0x80, 0x00], vec![45, 1, 2, 3, 4], vec![45, 1, 2, 3], vec![46, 0x81, 0x01, 0xff, 0xff, 0xff, 0xff],
        vec![49, 1, 2, 3, 4, 5, 6], vec![49, 1, 2, 3, 4, 5], vec![49, 1, 2, 0], vec![29, 1], vec![29, 1, 255], vec![70], vec![255], vec![44, 44, 44], vec![],
        vec![43, 0x80, 0x80, 0x01], vec![48, 5, 0x80],
    ];
    for s in &samples {
        out.push(format!("rd {}", hex(s)));
        for cut in 0..s.len() {
            out.push(format!("rd {}", hex(&s[..cut])));
        }
    }
    for b in 0..=255u8 {
        out.push(format!("rd {}", hex(&[b, 1, 2, 3, 4, 5, 6, 7, 8])));
    }
    for _ in 0..n {
        // random short code: opcodes from the table, operand bytes mostly small (argument counts stay small:
        // the real reader allocates `count` registers up front)
        let len = 1 + r.below(12) as usize;
        let v: Vec<u8> = (0..len).map(|_| match r.below(6) { 0 => r.below(72) as u8, 1 => 0x80 | r.below(4) as u8, _ => r.below(6) as u8 }).collect();
        out.push(format!("rd {}", hex(&v)));
    }
    // 7. bincode values: encodings made by the real crate, then damaged copies
    gen_bin(&mut r, n, &mut out);
    for l in out {
        println!("{}", l);
    }
}

fn enc<T: bincode::Encode>(v: T) -> Vec<u8> {
    bincode::encode_to_vec(&v, cfg()).expect("encode")
}

fn rand_string(r: &mut Rng) -> String {
    let n = match r.below(5) { 0 => 0, 1 => 250 + r.below(3) as usize, _ => r.below(8) as usize };
    let mut s = String::new();
    while s.len() < n {
        s.push(*r.pickv(&['a', 'Z', '0', 'é', '☃', '😀', '\u{0}', '\u{7f}', '\u{80}', '\u{7ff}', '\u{800}', '\u{ffff}', '\u{10000}', '\u{10ffff}', '\u{d7ff}', '\u{e000}']));
    }
    s
}

fn gen_bin(r: &mut Rng, n: usize, out: &mut Vec<String>) {
    let u64s: &[u64] = &[0, 1, 249, 250, 251, 252, 253, 254, 255, 256, 65534, 65535, 65536, 65537, 4294967294, 4294967295, 4294967296, u64::MAX - 1, u64::MAX];
    let i64s: &[i64] = &[0, 1, -1, 124, 125, 126, -125, -126, -127, 32767, 32768, -32768, -32769, i32::MAX as i64, i32::MIN as i64, i32::MAX as i64 + 1, i32::MIN as i64 - 1, i64::MAX, i64::MIN, i64::MIN + 1];
    let mut vals: Vec<(&str, Vec<u8>)> = Vec::new();
    for &v in u64s {
        vals.push(("u64", enc(v)));
        vals.push(("usize", enc(v as usize)));
        vals.push(("opt.u64", enc(Some(v))));
        if v <= u32::MAX as u64 { vals.push(("u32", enc(v as u32))); }
        if v <= u16::MAX as u64 { vals.push(("u16", enc(v as u16))); }
        if v <= u8::MAX as u64 { vals.push(("u8", enc(v as u8))); }
    }
    for &v in i64s {
        vals.push(("i64", enc(v)));
        if v >= i32::MIN as i64 && v <= i32::MAX as i64 { vals.push(("i32", enc(v as i32))); }
    }
    vals.push(("bool", enc(true)));
    vals.push(("bool", enc(false)));
    vals.push(("opt.u64", enc(None::<u64>)));
    vals.push(("opt.opt.bool", enc(Some(Some(true)))));
    vals.push(("opt.opt.bool", enc(Some(None::<bool>))));
    vals.push(("opt.opt.bool", enc(None::<Option<bool>>)));
    for &b in &[0u32, 1, 0x7fc00000, 0x7fc00001, 0xffc00000, 0x80000000, 0x3f800000, 0x7f800001, 0xfbfcfdfe] {
        vals.push(("f32", enc(f32::from_bits(b))));
    }
    for &b in &[0u64, 0x7ff8000000000000, 0x7ff8000000000001, 0xfff8000000000000, 0x7ff0000000000001, 0x3ff0000000000000, 0xfbfcfdfefffefdfc] {
        vals.push(("f64", enc(f64::from_bits(b))));
    }
    for &c in &['\u{0}', 'A', '\u{7f}', '\u{80}', '\u{7ff}', '\u{800}', '\u{d7ff}', '\u{e000}', '\u{ffff}', '\u{10000}', '\u{10ffff}'] {
        vals.push(("char", enc(c)));
    }
    for _ in 0..(n / 4 + 8) {
        vals.push(("str", enc(rand_string(r))));
        vals.push(("opt.str", enc(if r.chance(1, 4) { None } else { Some(rand_string(r)) })));
        vals.push(("pair.u32.str", enc((operand(r) as u32, rand_string(r)))));
        let k = match r.below(4) { 0 => 0, 1 => 250 + r.below(3), _ => r.below(6) } as usize;
        vals.push(("vec.u32", enc((0..k).map(|_| operand(r) as u32).collect::<Vec<u32>>())));
        vals.push(("vec.u8", enc((0..k).map(|_| r.below(256) as u8).collect::<Vec<u8>>())));
        vals.push(("vec.i64", enc((0..k % 7).map(|_| *r.pickv(i64s)).collect::<Vec<i64>>())));
        vals.push(("vec.str", enc((0..k % 5).map(|_| rand_string(r)).collect::<Vec<String>>())));
        vals.push(("vec.pair.u32.opt.i64", enc((0..k % 6).map(|_| (operand(r) as u32, if r.chance(1, 3) { None } else { Some(*r.pickv(i64s)) })).collect::<Vec<(u32, Option<i64>)>>())));
        vals.push(("vec.pair.str.pair.char.f64", enc((0..k % 4).map(|_| (rand_string(r), ('☃', f64::from_bits(r.next())))).collect::<Vec<(String, (char, f64))>>())));
        let mut vv: Vec<Vec<u16>> = Vec::new();
        for _ in 0..k % 4 {
            let m = r.below(4);
            vv.push((0..m).map(|_| *r.pickv(&[0u16, 250, 251, 65535])).collect());
        }
        vals.push(("vec.vec.u16", enc(vv)));
    }
    for (ty, b) in &vals {
        out.push(format!("bin {} {}", ty, hex(b)));
        // the same bytes with something left over
        if r.chance(1, 6) {
            let mut c = b.clone();
            c.push(r.below(256) as u8);
            out.push(format!("bin {} {}", ty, hex(&c)));
        }
        // truncated / one bit flipped / one byte replaced by a marker. Lengths are kept small: a damaged
        // length prefix makes the real decoder reserve that many items before it reads them.
        if !b.is_empty() && r.chance(1, 2) {
            let cut = r.below(b.len() as u64) as usize;
            out.push(format!("bin {} {}", ty, hex(&b[..cut])));
        }
        if !b.is_empty() && r.chance(1, 2) && !ty.starts_with("vec") && *ty != "str" && !ty.contains("str") {
            let mut c = b.clone();
            let k = r.below(c.len() as u64) as usize;
            c[k] ^= 1 << r.below(8);
            out.push(format!("bin {} {}", ty, hex(&c)));
        }
    }
    // hand-made encodings the encoder never produces: non-minimal varints, reserved markers, bad bools/options/chars
    for (ty, h) in [
        ("u32", "fb0000"), ("u32", "fbfa00"), ("u32", "fc01000000"), ("u64", "fd0100000000000000"), ("u64", "fb05"), ("u16", "fc01000000"),
        ("u32", "fd0100000000000000"), ("u64", "fe00000000000000000000000000000001"), ("u64", "ff"), ("u16", "fd"), ("u8", "fb"), ("u8", "ff"),
        ("i32", "fb0100"), ("i64", "fdffffffffffffffff"), ("i64", "fdfeffffffffffffff"), ("i32", "fcffffffff"), ("bool", "02"), ("bool", "ff"),
        ("opt.u64", "02"), ("opt.u64", "0105"), ("opt.u64", "01"), ("char", "c080"), ("char", "c1bf"), ("char", "eda080"), ("char", "ed9fbf"),
        ("char", "e08080"), ("char", "e0a080"), ("char", "f08080"), ("char", "f0908080"), ("char", "f4908080"), ("char", "f48fbfbf"),
        ("char", "f5808080"), ("char", "80"), ("char", "ff"), ("char", "e282"), ("char", "c3"), ("char", "c328"), ("char", "f0"), ("char", "e2820a"),
        ("str", "02c328"), ("str", "03e29883"), ("str", "03eda080"), ("str", "02e298"), ("str", "fb0300e29883"), ("str", "05"), ("str", "fd0300000000000000e29883"),
        ("vec.u8", "03c328ff"), ("vec.u32", "02fb0000fc05000000"), ("vec.u32", "0205"), ("vec.str", "0101c3"), ("pair.u32.str", "fc0000000000"),
        ("f32", "000000"), ("f64", "00000000000000"), ("vec.vec.u16", "020001fb0000"),
    ] {
        out.push(format!("bin {} {}", ty, h));
    }
    let _ = BIN_TYPES;
}

// ---------------------------------------------------------------------------------- packages

fn read_listing(code: &[u8]) -> Option<Lister> {
    let mut l = Lister::default();
    match std::panic::catch_unwind(std::panic::AssertUnwindSafe(|| dora_bytecode::read(code, &mut l))) {
        Ok(()) => Some(l),
        Err(_) => None,
    }
}

/// re-emit a function body read by the real reader through the real writer; returns the new code
fn rewrite(l: &Lister, code_len: usize) -> Result<Vec<u8>, String> {
    use std::collections::BTreeMap;
    let mut fwd: BTreeMap<u64, Vec<usize>> = BTreeMap::new(); // target offset -> instructions jumping there
    let mut back: BTreeMap<u64, ()> = BTreeMap::new();
    for (k, (off, name, ops)) in l.out.iter().enumerate() {
        match *name {
            "Jump" | "JumpIfFalse" | "JumpIfTrue" => {
                let d = match ops.last() { Some(V::N(d)) => *d, _ => return Err("jump operand".into()) };
                fwd.entry(*off as u64 + d).or_default().push(k);
            }
            "JumpLoop" => {
                let d = match ops.last() { Some(V::N(d)) => *d, _ => return Err("loop operand".into()) };
                if d > *off as u64 { return Err("loop target before the start".into()); }
                back.insert(*off as u64 - d, ());
            }
            _ => {}
        }
    }
    let mut w = BytecodeWriter::new();
    let mut label_of_jump: BTreeMap<usize, Label> = BTreeMap::new();
    let mut pending: BTreeMap<u64, Vec<Label>> = BTreeMap::new();
    let mut loop_label: BTreeMap<u64, Label> = BTreeMap::new();
    for (k, (off, name, ops)) in l.out.iter().enumerate() {
        if let Some(ls) = pending.remove(&(*off as u64)) {
            for lb in ls { w.bind_label(lb); }
        }
        if back.contains_key(&(*off as u64)) {
            loop_label.insert(*off as u64, w.define_label());
        }
        w.set_location(Location::new(1, 1));
        match *name {
            "Jump" | "JumpIfFalse" | "JumpIfTrue" => {
                let d = match ops.last() { Some(V::N(d)) => *d, _ => unreachable!() };
                let lb = w.create_label();
                label_of_jump.insert(k, lb);
                pending.entry(*off as u64 + d).or_default().push(lb);
                let reg = |i: usize| match &ops[i] { V::N(v) => Register(*v as usize), _ => Register(0) };
                match *name {
                    "Jump" => w.emit_jump(lb),
                    "JumpIfFalse" => w.emit_jump_if_false(reg(0), lb),
                    _ => w.emit_jump_if_true(reg(0), lb),
                }
            }
            "JumpLoop" => {
                let d = match ops.last() { Some(V::N(d)) => *d, _ => unreachable!() };
                let lb = *loop_label.get(&(*off as u64 - d)).ok_or("loop target is not an instruction start")?;
                w.emit_jump_loop(lb);
            }
            "ConstChar" | "ConstInt32" | "ConstInt64" | "ConstFloat32" | "ConstFloat64" | "ConstString" => {
                // the emit_const_* functions allocate a new pool entry; re-emit with the recorded index instead
                // through an instruction of the same wire shape (register, index) and patch the opcode afterwards
                return Err("const".into());
            }
            _ => {
                // visit order -> emit order (hand table, see expected_visit)
                let api: Vec<Arg> = match *name {
                    "NewTraitObject" => vec![0usize, 2, 1],
                    _ => (0..ops.len()).collect(),
                }
                .into_iter()
                .map(|i| match &ops[i] { V::N(v) => Arg::N(*v as i128), V::L(l) => Arg::L(l.clone()) })
                .collect();
                gen_dispatch::emit(&mut w, name, &api);
            }
        }
    }
    if let Some(ls) = pending.remove(&(code_len as u64)) {
        for lb in ls { w.bind_label(lb); }
    }
    if !pending.is_empty() {
        return Err("jump target is not an instruction start".into());
    }
    let _ = fwd;
    Ok(w.generate_with_registers(Vec::<BytecodeType>::new()).code().to_vec())
}

fn pkg(path: &str) -> i32 {
    let bytes = std::fs::read(path).expect("read package");
    let program: Program = match dora_bytecode::decode_program_from_bytes(&bytes) {
        Ok(p) => p,
        Err(e) => {
            eprintln!("summary decode=ERR {}", e);
            return 1;
        }
    };
    let again = bincode::encode_to_vec(&program, cfg()).expect("encode");
    let same = again == bytes;
    let mut nbody = 0usize;
    let mut ninstr = 0usize;
    let mut nrewritten = 0usize;
    let mut rewrite_bad: Vec<String> = Vec::new();
    let mut reader_panics: Vec<String> = Vec::new();
    let mut max_code = 0usize;
    let mut max_pool = 0usize;
    let mut max_reg = 0u64;
    let mut max_jump = 0u64;
    let stdout = std::io::stdout();
    let mut out = std::io::BufWriter::new(stdout.lock());
    let mut seen = std::collections::HashSet::new();
    for (fid, f) in program.functions.iter().enumerate() {
        let body = match &f.bytecode { Some(b) => b, None => continue };
        nbody += 1;
        let code = body.code();
        max_code = max_code.max(code.len());
        max_pool = max_pool.max(body.const_pool_entries().len());
        if seen.insert(code.to_vec()) {
            writeln!(out, "rd {}", hex(code)).unwrap();
        }
        let l = match read_listing(code) {
            Some(l) => l,
            None => { reader_panics.push(format!("{}:{}", fid, f.name)); continue; }
        };
        ninstr += l.out.len();
        for (_, name, ops) in &l.out {
            for v in ops {
                if let V::N(x) = v { if !name.starts_with("Jump") { max_reg = max_reg.max(*x); } else { max_jump = max_jump.max(*x); } }
            }
        }
        // const instructions carry a pool index, which emit_const_* would re-allocate: rewrite them as the
        // same-shaped Switch instruction (register, index) and compare modulo that opcode byte
        let mut l2 = Lister::default();
        let mut const_at: Vec<(u32, u8)> = Vec::new();
        for (off, name, ops) in &l.out {
            if matches!(*name, "ConstChar" | "ConstInt32" | "ConstInt64" | "ConstFloat32" | "ConstFloat64" | "ConstString") {
                const_at.push((*off, code[*off as usize]));
                l2.out.push((*off, "Switch", ops.clone()));
            } else {
                l2.out.push((*off, name, ops.clone()));
            }
        }
        match std::panic::catch_unwind(std::panic::AssertUnwindSafe(|| rewrite(&l2, code.len()))) {
            Ok(Ok(mut c2)) => {
                for (off, b) in &const_at {
                    if (*off as usize) < c2.len() { c2[*off as usize] = *b; }
                }
                if c2 == code { nrewritten += 1; } else { rewrite_bad.push(format!("{}:{}", fid, f.name)); }
            }
            Ok(Err(e)) => rewrite_bad.push(format!("{}:{}:{}", fid, f.name, e)),
            Err(_) => rewrite_bad.push(format!("{}:{}:panic", fid, f.name)),
        }
    }
    out.flush().unwrap();
    eprintln!(
        "summary decode=ok bytes={} re={}:{} reencode_identical={} functions={} bodies={} distinct_bodies={} instructions={} rewritten_identical={} rewrite_bad={} reader_panics={} max_code={} max_pool={} max_operand={} max_jump={}",
        bytes.len(), fnv_bytes(&again), again.len(), same, program.functions.len(), nbody, seen.len(), ninstr, nrewritten, rewrite_bad.len(), reader_panics.len(), max_code, max_pool, max_reg, max_jump
    );
    for b in rewrite_bad.iter().take(5) { eprintln!("rewrite_bad {}", b); }
    for b in reader_panics.iter().take(5) { eprintln!("reader_panic {}", b); }
    if same && rewrite_bad.is_empty() && reader_panics.is_empty() { 0 } else { 1 }
}

fn mutate(bytes: &[u8], kind: &str, pos: usize, bit: u32) -> Vec<u8> {
    match kind {
        "trunc" => bytes[..pos].to_vec(),
        "flip" => {
            let mut b = bytes.to_vec();
            b[pos] ^= 1u8 << bit;
            b
        }
        _ => panic!("mutation kind"),
    }
}

/// the list of mutations of a run is a function of (file length, seed, step, flips) only
fn mutations(len: usize, seed: u64, step: usize, flips: usize) -> Vec<(&'static str, usize, u32)> {
    let mut v = Vec::new();
    let mut k = 0usize;
    while k < len {
        v.push(("trunc", k, 0));
        k += step.max(1);
    }
    if len > 0 { v.push(("trunc", len - 1, 0)); }
    let mut r = Rng(seed.wrapping_mul(0x9E3779B97F4A7C15) ^ 0xC18C18);
    for _ in 0..flips {
        v.push(("flip", r.below(len as u64) as usize, r.below(8) as u32));
    }
    v
}

static LAST_PANIC: std::sync::Mutex<String> = std::sync::Mutex::new(String::new());

fn damage(path: &str, seed: u64, step: usize, flips: usize, from: usize) -> i32 {
    let bytes = std::fs::read(path).expect("read package");
    std::panic::set_hook(Box::new(|info| {
        let loc = info.location().map(|l| format!("{}:{}", l.file(), l.line())).unwrap_or("?".into());
        *LAST_PANIC.lock().unwrap() = loc;
    }));
    let muts = mutations(bytes.len(), seed, step, flips);
    let stdout = std::io::stdout();
    for (i, (kind, pos, bit)) in muts.iter().enumerate().skip(from) {
        // announce first: an abort (allocation failure) kills the process, the caller resumes after it
        {
            let mut o = stdout.lock();
            write!(o, "{} {} {} {} ", i, kind, pos, bit).unwrap();
            o.flush().unwrap();
        }
        let b = mutate(&bytes, kind, *pos, *bit);
        let res = std::panic::catch_unwind(std::panic::AssertUnwindSafe(|| match dora_bytecode::decode_program_from_bytes(&b) {
            Ok(p) => {
                let again = bincode::encode_to_vec(&p, cfg()).expect("encode");
                // a damaged file that decodes must decode to a program that re-encodes to a fixed point
                let p2 = dora_bytecode::decode_program_from_bytes(&again);
                let stable = match p2 {
                    Ok(p2) => bincode::encode_to_vec(&p2, cfg()).expect("encode") == again,
                    Err(_) => false,
                };
                format!("ok same_bytes={} stable={} re={}:{}", again == b, stable, fnv_bytes(&again), again.len())
            }
            Err(e) => format!("err {}", e.replace('\n', " ").chars().take(60).collect::<String>()),
        }));
        let mut o = stdout.lock();
        match res {
            Ok(s) => writeln!(o, "{}", s).unwrap(),
            Err(_) => writeln!(o, "panic {}", LAST_PANIC.lock().unwrap()).unwrap(),
        }
        o.flush().unwrap();
    }
    0
}

fn main() {
    let args: Vec<String> = std::env::args().collect();
    let a = |i: usize| args.get(i).map(|s| s.as_str());
    let code = match a(1) {
        Some("gen") => {
            gen(a(2).and_then(|s| s.parse().ok()).unwrap_or(300));
            0
        }
        Some("run") => {
            hutil::serve(a(2), &mut |l| respond(l));
            0
        }
        Some("pkg") => pkg(a(2).expect("file")),
        Some("damage") => damage(
            a(2).expect("file"),
            a(3).and_then(|s| s.parse().ok()).unwrap_or(1),
            a(4).and_then(|s| s.parse().ok()).unwrap_or(997),
            a(5).and_then(|s| s.parse().ok()).unwrap_or(100),
            a(6).and_then(|s| s.parse().ok()).unwrap_or(0),
        ),
        Some("mutant") => {
            let bytes = std::fs::read(a(2).expect("file")).expect("read package");
            let b = mutate(&bytes, a(3).expect("kind"), a(4).unwrap().parse().unwrap(), a(5).unwrap().parse().unwrap());
            std::fs::write(a(6).expect("out"), b).expect("write");
            0
        }
        _ => {
            eprintln!("usage: h_c18 gen <n> | run [file] | pkg <file> | damage <file> <seed> <step> <flips> [from] | mutant <file> <kind> <pos> <bit> <out>");
            2
        }
    };
    std::process::exit(code);
}
